import FalconModel.Ws
/-! C17: every trace of events that `_handle_websocket` gets the server to accept is a word of the ASGI WebSocket
    send-side automaton — for every responder script, client script, fault position and configuration. -/
namespace Ws

/-- the ASGI server's view of the send side -/
inductive M where | connecting | opened | done
deriving DecidableEq, Repr

def M.step : M → Ev → Option M
  | .connecting, .accept _ => some .opened
  | .opened, .send _ => some .opened
  | .connecting, .close _ _ => some .done     -- denial: the server answers the handshake with 403
  | .opened, .close _ _ => some .done
  | _, _ => none

def M.run : M → List Ev → Option M
  | m, [] => some m
  | m, e :: es => match m.step e with | some m' => m'.run es | none => none

/-- the events the server accepted (a `send` that raised delivered nothing) -/
def okEvents (l : List (Ev × Bool)) : List Ev := (l.filter (·.2)).map (·.1)

theorem run_append (m : M) (a b : List Ev) :
    M.run m (a ++ b) = match M.run m a with | some m' => M.run m' b | none => none := by
  induction a generalizing m with
  | nil => rfl
  | cons e es ih =>
    simp only [List.cons_append, M.run]
    cases h : m.step e with
    | none => rfl
    | some m' => exact ih m'

/-- the model's state tracks the automaton as long as the connection is not marked closed -/
structure Inv (w : W) : Prop where
  legal : ∃ m, M.run .connecting (okEvents w.sent) = some m ∧
    (w.st = .handshake → m = .connecting) ∧ (w.st = .accepted → m = .opened)

theorem okEvents_snoc (l : List (Ev × Bool)) (e : Ev) (ok : Bool) :
    okEvents (l ++ [(e, ok)]) = if ok then okEvents l ++ [e] else okEvents l := by
  unfold okEvents
  cases ok <;> simp [List.filter_append]

theorem Inv.init (w : W) (h1 : w.st = .handshake) (h2 : w.sent = []) : Inv w :=
  ⟨⟨.connecting, by rw [h2]; rfl, fun _ => rfl, fun h => by rw [h1] at h; cases h⟩⟩

/-- sending `e` is legal when the automaton, in the state the model believes it is in, accepts `e` -/
theorem asgiSend_spec (w : W) (e : Ev) :
    (w.asgiSend e).1.st = w.st ∧ (w.asgiSend e).1.closeCode = w.closeCode ∧
    (w.asgiSend e).1.sent = w.sent ++ [(e, (w.asgiSend e).2)] := by
  unfold W.asgiSend; simp

theorem accept_inv (w : W) (h : Bool) (hi : Inv w) : Inv (w.accept none h).1 := by
  unfold W.accept
  split
  · exact hi
  split
  · exact hi
  split
  · exact hi
  rename_i hc hs _
  have hst : w.st = .handshake := by simpa using hs
  obtain ⟨m, hm, hh, _⟩ := hi.legal
  have hmc := hh hst
  subst hmc
  unfold W.send_
  simp only [hst]
  have hne : ((S.handshake == S.closed) = false) := by decide
  simp only [hne, Bool.false_eq_true, if_false]
  obtain ⟨s1, s2, s3⟩ := asgiSend_spec w (.accept h)
  cases hok : (w.asgiSend (.accept h)).2
  · -- the send raised: marked closed, nothing delivered
    simp only [Bool.false_eq_true, if_false]
    refine ⟨⟨.connecting, ?_, fun h => by simp at h, fun h => by simp at h⟩⟩
    show M.run .connecting (okEvents (w.asgiSend (.accept h)).1.sent) = _
    rw [s3, hok, okEvents_snoc]; simpa using hm
  · simp only [if_true]
    refine ⟨⟨.opened, ?_, fun h => by simp at h, fun _ => rfl⟩⟩
    show M.run .connecting (okEvents (w.asgiSend (.accept h)).1.sent) = _
    rw [s3, hok, okEvents_snoc]; simp only [if_true]
    rw [run_append, hm]; rfl

theorem closeGo_inv (w : W) (code : Int) (hi : Inv w) : Inv (W.close.go none w code).1 := by
  unfold W.close.go
  split
  · exact hi
  rename_i hc
  have hnc : w.st ≠ .closed := by
    intro h; apply hc; simp [W.isClosed, h]
  obtain ⟨m, hm, hh, ha⟩ := hi.legal
  obtain ⟨s1, s2, s3⟩ := asgiSend_spec w (.close code (w.reasonCodes.contains code && w.supReason))
  rcases hsend : w.asgiSend (.close code (w.reasonCodes.contains code && w.supReason)) with ⟨w1, ok⟩
  rw [hsend] at s1 s2 s3
  simp only at s1 s2 s3
  cases ok
  · refine ⟨⟨m, ?_, ?_, ?_⟩⟩
    · show M.run .connecting (okEvents w1.sent) = some m
      rw [s3, okEvents_snoc]; simpa using hm
    · show w1.st = .handshake → _
      rw [s1]; exact hh
    · show w1.st = .accepted → _
      rw [s1]; exact ha
  · refine ⟨⟨.done, ?_, fun h => by simp at h, fun h => by simp at h⟩⟩
    show M.run .connecting (okEvents w1.sent) = some .done
    rw [s3, okEvents_snoc]; simp only [if_true]
    rw [run_append, hm]
    cases hst : w.st with
    | handshake => rw [hh hst]; rfl
    | accepted => rw [ha hst]; rfl
    | closed => exact absurd hst hnc

theorem close_inv (w : W) (a : CodeArg) (hi : Inv w) : Inv (w.close none a).1 := by
  unfold W.close
  split
  · exact hi
  · split
    · exact hi
    · split
      · exact hi
      · exact closeGo_inv w _ hi
  · exact closeGo_inv w _ hi

theorem sendMsg_inv (w : W) (k : Kind) (hi : Inv w) : Inv (w.sendMsg none k).1 := by
  unfold W.sendMsg
  split
  · exact hi
  rename_i hreq
  have hst : w.st = .accepted := by
    unfold W.requireAccepted at hreq
    cases h : w.st <;> simp [h] at hreq
    rfl
  obtain ⟨m, hm, _, ha⟩ := hi.legal
  have hmo := ha hst
  subst hmo
  unfold W.send_
  simp only [hst]
  have hne : ((S.accepted == S.closed) = false) := by decide
  simp only [hne, Bool.false_eq_true, if_false]
  obtain ⟨s1, s2, s3⟩ := asgiSend_spec w (.send k)
  cases hok : (w.asgiSend (.send k)).2
  · simp only [Bool.false_eq_true, if_false]
    refine ⟨⟨.opened, ?_, fun h => by simp at h, fun h => by simp at h⟩⟩
    show M.run .connecting (okEvents (w.asgiSend (.send k)).1.sent) = _
    rw [s3, hok, okEvents_snoc]; simpa using hm
  · simp only [if_true]
    refine ⟨⟨.opened, ?_, ?_, fun _ => rfl⟩⟩
    · rw [s3, hok, okEvents_snoc]; simp only [if_true]
      rw [run_append, hm]; rfl
    · rw [s1, hst]; intro h; cases h

theorem recv_inv (w : W) (k : RecvKind) (hi : Inv w) : Inv (w.recv k).1 := by
  have key : ∀ w', (w'.sent = w.sent ∧ (w'.st = w.st ∨ w'.st = .closed)) → Inv w' := by
    intro w' ⟨h1, h2⟩
    obtain ⟨m, hm, hh, ha⟩ := hi.legal
    refine ⟨⟨m, by rw [h1]; exact hm, ?_, ?_⟩⟩
    · intro h; rcases h2 with h2 | h2
      · exact hh (h2 ▸ h)
      · rw [h2] at h; cases h
    · intro h; rcases h2 with h2 | h2
      · exact ha (h2 ▸ h)
      · rw [h2] at h; cases h
  unfold W.recv
  split
  · exact hi
  · have hr : (w.receive_.1.sent = w.sent ∧ (w.receive_.1.st = w.st ∨ w.receive_.1.st = .closed)) := by
      unfold W.receive_
      split
      · exact ⟨rfl, Or.inl rfl⟩
      · exact ⟨rfl, Or.inr rfl⟩
      · exact ⟨rfl, Or.inl rfl⟩
    split
    · rename_i w1 e heq
      have : w1 = w.receive_.1 := by rw [heq]
      rw [this]; exact key _ hr
    · rename_i w1 ev heq
      have : w1 = w.receive_.1 := by rw [heq]
      subst this
      split <;> exact key _ hr

theorem op_inv (w : W) (o : Op) (hi : Inv w) : Inv (w.op o).1 := by
  cases o with
  | accept h => exact accept_inv w h hi
  | close a => exact close_inv w a hi
  | send k => exact sendMsg_inv w k hi
  | recv k => exact recv_inv w k hi
  | raiseHttp s => exact hi
  | raiseStatus s => exact hi
  | raiseExc => exact hi

theorem runScript_inv (sc : List (Op × Bool)) : ∀ (w : W) (log : List (Option Exc)), Inv w →
    Inv (runScript w sc log).1 := by
  induction sc with
  | nil => intro w log hi; exact hi
  | cons x rest ih =>
    intro w log hi
    obtain ⟨o, c⟩ := x
    unfold runScript
    have h1 := op_inv w o hi
    rcases hop : w.op o with ⟨w1, eo⟩
    rw [hop] at h1
    cases eo with
    | none => exact ih w1 _ h1
    | some e =>
      simp only
      split
      · exact ih w1 _ h1
      · exact h1

theorem cleanup_inv (w : W) (hi : Inv w) : Inv (cleanup w).1 := by
  unfold cleanup
  have h1 := close_inv w (.int w.errCloseCode) hi
  rcases hc : w.close none (.int w.errCloseCode) with ⟨w1, eo⟩
  rw [hc] at h1
  cases eo with
  | none => exact h1
  | some e =>
    cases e <;> first | exact h1 | exact close_inv w1 _ h1

theorem handleException_inv (w : W) (e : Exc) (hi : Inv w) : Inv (handleException w e).1 := by
  cases e <;> first | exact close_inv w _ hi | exact cleanup_inv w hi

/-- **C17 `emitted_trace_legal`** -/
theorem handle_inv (w : W) (script : Option (List (Op × Bool))) (hi : Inv w) : Inv (handle w script).1 := by
  unfold handle
  cases script with
  | none => exact handleException_inv w _ hi
  | some sc =>
    simp only
    have h1 := runScript_inv sc w [] hi
    rcases hr : runScript w sc [] with ⟨w1, log, eo⟩
    rw [hr] at h1
    cases eo with
    | some e => exact handleException_inv w1 e h1
    | none =>
      simp only
      have h2 := close_inv w1 .none h1
      rcases hc : w1.close none .none with ⟨w2, eo2⟩
      rw [hc] at h2
      cases eo2 with
      | none => exact h2
      | some e => exact handleException_inv w2 e h2

theorem emitted_trace_legal (w : W) (script : Option (List (Op × Bool)))
    (h1 : w.st = .handshake) (h2 : w.sent = []) :
    (M.run .connecting (okEvents (handle w script).1.sent)).isSome := by
  obtain ⟨m, hm, _⟩ := (handle_inv w script (Inv.init w h1 h2)).legal
  rw [hm]; rfl

#print axioms emitted_trace_legal

/-! ### the connection is never left half-open: unless an exception escapes to the server, the session ends closed -/

theorem closeGo_closed (w : W) (code : Int) (h : (W.close.go none w code).2 = none) :
    (W.close.go none w code).1.st = .closed := by
  unfold W.close.go at h ⊢
  split
  · rename_i hc
    simpa [W.isClosed] using hc
  · rename_i hc
    simp only [hc] at h
    rcases hsend : w.asgiSend (.close code (w.reasonCodes.contains code && w.supReason)) with ⟨w1, ok⟩
    rw [hsend] at h
    cases ok
    · simp at h
    · rfl

theorem close_closed (w : W) (a : CodeArg) (h : (w.close none a).2 = none) : (w.close none a).1.st = .closed := by
  unfold W.close at h ⊢
  split
  · simp at h
  · rename_i c
    split
    · rename_i h1; simp [h1] at h
    · rename_i h1
      split
      · rename_i h2; simp [h1, h2] at h
      · rename_i h2
        simp only [h1, h2, if_false, Bool.false_eq_true] at h
        exact closeGo_closed w c h
  · exact closeGo_closed w 1000 h

theorem cleanup_closed (w : W) (h : (cleanup w).2 = none) : (cleanup w).1.st = .closed := by
  unfold cleanup at h ⊢
  have h1 := close_closed w (.int w.errCloseCode)
  rcases hc : w.close none (.int w.errCloseCode) with ⟨w1, eo⟩
  rw [hc] at h h1
  cases eo with
  | none => exact h1 rfl
  | some e =>
    cases e with
    | invalidCloseCode => exact close_closed w1 _ h
    | _ => simp at h

theorem handleException_closed (w : W) (e : Exc) (h : (handleException w e).2 = none) :
    (handleException w e).1.st = .closed := by
  cases e <;> first | exact close_closed w _ h | exact cleanup_closed w h

/-- **C17 `closed_unless_escaped`**: whatever the responder, the client and the server's `send` do, when
    `_handle_websocket` returns normally the connection has been closed (or denied) or is known to be lost. -/
theorem closed_unless_escaped (w : W) (script : Option (List (Op × Bool))) (h : (handle w script).2.2 = none) :
    (handle w script).1.st = .closed := by
  unfold handle at h ⊢
  cases script with
  | none => exact handleException_closed w _ h
  | some sc =>
    simp only at h ⊢
    rcases hr : runScript w sc [] with ⟨w1, log, eo⟩
    rw [hr] at h
    cases eo with
    | some e => exact handleException_closed w1 e h
    | none =>
      simp only at h ⊢
      have h2 := close_closed w1 .none
      rcases hc : w1.close none .none with ⟨w2, eo2⟩
      rw [hc] at h h2
      cases eo2 with
      | none => exact h2 rfl
      | some e => exact handleException_closed w2 e h

#print axioms closed_unless_escaped
end Ws

/-! C18, unbuffered mode: small-step model of falcon/asgi/ws.py `WebSocket` constructed with `max_receive_queue = 0`.

    In that mode `WebSocket.__init__` binds `self._asgi_receive = receive` (the server's callable, not
    `_BufferedReceiver.receive`), `_BufferedReceiver.start()` creates no pump task, so
    `_buffered_receiver.client_disconnected` stays `False` for ever and `closed`/`ready` reduce to `_state`.
    There is no queue inside the framework: the only buffer is the server's.  A disconnect event that arrives while the
    application is not receiving stays at the server until the next receive pulls it (or until a send fails at the server).

    A step is what one task does between two awaits:
    * `recv k`    – `receive_text()` / `receive_data()` from its first line to `await self._asgi_receive()` (one pull is
                    issued and the call parks) or to the exception raised by `_require_accepted()`;
    * `deliver`   – the server hands the next client event to the outstanding pull and the parked call resumes: it returns the
                    payload, raises `PayloadTypeError`, or (disconnect event) sets `_state = CLOSED`, `_close_code` and raises
                    `WebSocketDisconnected`;
    * `cancel`    – the task parked in the receive is cancelled (the server keeps the event it had not handed over);
    * `send r`    – `send_text()`; `r` says how the server's `send()` behaves if it is reached (`_translate_webserver_error`);
    * `close c`   – `close(code)`;  `accept` – `accept()`.
    Any enabled step may fire. -/
namespace Wu

inductive St where
  | handshake | accepted | closed
deriving Repr, BEq, DecidableEq

/-- client → server events in arrival order; `n` identifies the message -/
inductive CEv where
  | text (n : Nat)
  | bytes (n : Nat)
  | disc (code : Option Nat)     -- `websocket.disconnect`; the `code` key may be missing (→ 1000)
deriving Repr, BEq, DecidableEq

inductive RecvKind where
  | text | data
deriving Repr, BEq, DecidableEq

/-- what the server's `send()` raises, classified in the order `_translate_webserver_error` tests -/
inductive SrvErr where
  | ok1000                       -- message contains 'code = 1000 (OK)'
  | subproto                     -- message contains 'protocol accepted must be from the list'
  | oserr (cause : Option Nat)   -- an OSError; `__cause__` text starts with 'received dddd' or not
  | other                        -- anything else: re-raised untouched
deriving Repr, BEq, DecidableEq

inductive Label where
  | accept
  | recv (k : RecvKind)
  | deliver
  | cancel
  | send (r : Option SrvErr)
  | close (code : Option Nat)
deriving Repr, BEq, DecidableEq

/-- what reached the server's `send()` -/
inductive Sent where
  | accept | text | close (code : Nat)
deriving Repr, BEq, DecidableEq

/-- what the application observes from one step -/
inductive Obs where
  | parked                           -- the receive issued one pull and awaits it
  | ret (n : Nat)                    -- the receive returned the payload of message n
  | payloadErr (n : Nat)             -- message n was consumed; PayloadTypeError (wrong payload type for the call)
  | wsdEvent (code : Nat)            -- the receive consumed the disconnect event: WebSocketDisconnected; `code` = the exception's `.code`
  | wsdState (code : Nat)            -- `_require_accepted()`: WebSocketDisconnected(self._close_code); nothing pulled
  | notAllowed                       -- OperationNotAllowed
  | cancelled
  | sendOk
  | sendWsd (code : Nat)
  | sendValueErr
  | sendRaised
  | acceptOk
  | closeSent (code : Nat)
  | closeNoop
  | closeValueErr
deriving Repr, BEq, DecidableEq

structure S where
  pending : List CEv                 -- at the server, not yet handed over (arrival order)
  taken : List CEv := []             -- ghost: handed over so far
  state : St := .handshake           -- `self._state`
  closeCode : Option Nat := none     -- `self._close_code`
  app : Option RecvKind := none      -- `some k`: a receive of kind k is parked in `await self._asgi_receive()`
  pulls : Nat := 0                   -- outstanding calls of the server's receive()
  sent : List Sent := []             -- what reached the server's send()
  out : List Obs := []               -- one observation per step
deriving Repr, DecidableEq

/-- `WebSocketDisconnected.__init__`: `self.code = code or 1000` (so `None` and `0` both read 1000) -/
def excCode : Option Nat → Nat
  | none => 1000
  | some 0 => 1000
  | some c => c

def init (arrived : List CEv) : S := { pending := arrived }

def emit (s : S) (o : Obs) : S := { s with out := s.out ++ [o] }

/-- `close()` validates the code after `stop()` and before it looks at the state; `none` = ValueError -/
def closeCodeOk : Option Nat → Option Nat
  | none => some 1000
  | some c =>
    if c < 1000 then none
    else if (1015 ≤ c && c ≤ 1999) || (1004 ≤ c && c ≤ 1006) then none
    else some c

/-- the body of a receive call after `event = await self._receive()` returned a message of the given payload -/
def payloadObs (k : RecvKind) : CEv → Obs
  | .text n => if k = .text then .ret n else .payloadErr n
  | .bytes n => if k = .data then .ret n else .payloadErr n
  | .disc c => .wsdEvent (excCode (some (c.getD 1000)))

def step (s : S) : Label → Option S
  | .accept =>
    -- `if self.closed` / `if self._state != HANDSHAKE` → OperationNotAllowed; else `_send(accept)`, state, `start()` (no pump)
    if s.state ≠ .handshake then some (emit s .notAllowed)
    else some (emit { s with state := .accepted, sent := s.sent ++ [.accept] } .acceptOk)
  | .recv k =>
    if s.app.isSome then none          -- one receiver at a time
    else match s.state with
      | .handshake => some (emit s .notAllowed)
      | .closed => some (emit s (.wsdState (excCode s.closeCode)))
      | .accepted => some (emit { s with app := some k, pulls := s.pulls + 1 } .parked)
  | .deliver =>
    match s.app, s.pending with
    | some k, e :: rest =>
      let s := { s with app := none, pulls := s.pulls - 1, pending := rest, taken := s.taken ++ [e] }
      match e with
      | .disc c => some (emit { s with state := .closed, closeCode := some (c.getD 1000) } (payloadObs k e))
      | _ => some (emit s (payloadObs k e))
    | _, _ => none
  | .cancel =>
    match s.app with
    | some _ => some (emit { s with app := none, pulls := s.pulls - 1 } .cancelled)
    | none => none
  | .send r =>
    match s.state with
    | .handshake => some (emit s .notAllowed)
    | .closed => some (emit s (.sendWsd (excCode s.closeCode)))
    | .accepted =>
      -- `_send`: client_disconnected is False, state is not CLOSED → the server's send() is called
      let s := { s with sent := s.sent ++ [.text] }
      match r with
      | none => some (emit s .sendOk)
      | some .ok1000 => some (emit { s with state := .closed, closeCode := some 1000 } (.sendWsd 1000))
      | some .subproto => some (emit { s with state := .closed } .sendValueErr)
      | some (.oserr c) => some (emit { s with state := .closed, closeCode := c } (.sendWsd (excCode c)))
      | some .other => some (emit s .sendRaised)
  | .close code =>
    match closeCodeOk code with
    | none => some (emit s .closeValueErr)
    | some c =>
      if s.state = .closed then some (emit s .closeNoop)
      else some (emit { s with state := .closed, closeCode := some c, sent := s.sent ++ [.close c] } (.closeSent c))

def runFrom : S → List Label → Option S
  | s, [] => some s
  | s, l :: ls => match step s l with
    | some s' => runFrom s' ls
    | none => none

/-- identity of a consumed client event as the application sees it -/
def discId : Nat := 999

def CEv.id : CEv → Nat
  | .text n => n
  | .bytes n => n
  | .disc _ => discId

def CEv.isDisc : CEv → Bool
  | .disc _ => true
  | _ => false

/-- the observations that consume a client event -/
def Obs.id? : Obs → Option Nat
  | .ret n => some n
  | .payloadErr n => some n
  | .wsdEvent _ => some discId
  | _ => none

def observed (s : S) : List Nat := s.out.filterMap Obs.id?

/-- public properties -/
def S.closedProp (s : S) : Bool := decide (s.state = .closed)
def S.readyProp (s : S) : Bool := decide (s.state = .accepted)
def S.unacceptedProp (s : S) : Bool := decide (s.state = .handshake)

end Wu

import FalconModel.WsUnbuf
/-! C18, unbuffered mode: FIFO / lossless / once, disconnect exactly after the preceding messages and sticky, nothing buffered,
    fairness-free enabledness — for every schedule (list of labels), by induction over the run. -/
namespace Wu

/-- no disconnect event among the events of `l` -/
def noDisc (l : List CEv) : Prop := ∀ e ∈ l, e.isDisc = false

structure Inv (arrived : List CEv) (s : S) : Prop where
  /-- handed-over ++ still at the server = arrived: order, no loss, no duplication at the server boundary -/
  conserve : s.taken ++ s.pending = arrived
  /-- every handed-over event was observed by the application in the same step, in order: nothing is held in between -/
  observed_eq : observed s = s.taken.map CEv.id
  /-- one outstanding pull exactly while a receive is parked -/
  pulls_eq : s.pulls = if s.app.isSome then 1 else 0
  /-- a receive parks only on an accepted (later possibly closed) socket -/
  parked_not_handshake : s.app.isSome → s.state ≠ .handshake
  /-- once a disconnect event was handed over: closed, nobody parked, the code is the client's -/
  disc_closed : ∀ c, CEv.disc c ∈ s.taken → s.state = .closed ∧ s.app = none ∧ s.closeCode = some (c.getD 1000)
  /-- a disconnect event can only be the last event handed over -/
  disc_last : noDisc s.taken.dropLast

theorem observed_emit (s : S) (o : Obs) : observed (emit s o) = observed s ++ (o.id?.toList) := by
  unfold observed emit
  simp only [List.filterMap_append]
  cases h : o.id? <;> simp [List.filterMap, h]

theorem inv_init (arrived : List CEv) : Inv arrived (init arrived) := by
  refine ⟨?_, ?_, ?_, ?_, ?_, ?_⟩ <;> simp [init, observed, noDisc]

theorem payloadObs_id (k : RecvKind) (e : CEv) : (payloadObs k e).id? = some e.id := by
  cases e <;> cases k <;> rfl

/-- a step that touches neither the server boundary nor the parked receive, and does not reopen the socket -/
theorem inv_of_frame (arrived : List CEv) (s s' : S) (o : Obs) (h : Inv arrived s)
    (hp : s'.pending = s.pending) (ht : s'.taken = s.taken) (ha : s'.app = s.app) (hpl : s'.pulls = s.pulls)
    (hout : s'.out = s.out) (ho : o.id? = none)
    (hst : s.app.isSome → s'.state ≠ .handshake)
    (hcl : s.state = .closed → s.app = none → s'.state = .closed ∧ s'.closeCode = s.closeCode) :
    Inv arrived (emit s' o) := by
  obtain ⟨h1, h2, h3, h4, h5, h6⟩ := h
  refine ⟨?_, ?_, ?_, ?_, ?_, ?_⟩
  · simp [emit, hp, ht, h1]
  · rw [observed_emit, ho]; simp [observed, emit, hout, ht] ; exact h2
  · simp [emit, ha, hpl, h3]
  · intro hsome; simp only [emit] at hsome ⊢; rw [ha] at hsome; exact hst hsome
  · intro c hc
    simp only [emit] at hc ⊢
    rw [ht] at hc
    obtain ⟨a, b, d⟩ := h5 c hc
    obtain ⟨e1, e2⟩ := hcl a b
    exact ⟨e1, by rw [ha]; exact b, by rw [e2]; exact d⟩
  · simp only [emit, ht]; exact h6

/-- **every step preserves the invariant** -/
theorem step_preserves (arrived : List CEv) (s s' : S) (l : Label) (h : Inv arrived s) (hs : step s l = some s') :
    Inv arrived s' := by
  cases l with
  | accept =>
    simp only [step] at hs
    split at hs
    · cases hs
      exact inv_of_frame arrived s s _ h rfl rfl rfl rfl rfl rfl (fun hp => h.parked_not_handshake hp) (fun a _ => ⟨a, rfl⟩)
    · rename_i hst
      cases hs
      have hhs : s.state = .handshake := by simpa using hst
      refine inv_of_frame arrived s _ _ h rfl rfl rfl rfl rfl rfl (fun _ => by simp) (fun a _ => ?_)
      rw [hhs] at a; cases a
  | recv k =>
    simp only [step] at hs
    split at hs
    · cases hs
    · rename_i hnp
      have happ : s.app = none := by cases ha : s.app <;> simp_all
      split at hs
      · cases hs
        exact inv_of_frame arrived s s _ h rfl rfl rfl rfl rfl rfl (fun hp => h.parked_not_handshake hp) (fun a _ => ⟨a, rfl⟩)
      · cases hs
        exact inv_of_frame arrived s s _ h rfl rfl rfl rfl rfl rfl (fun hp => h.parked_not_handshake hp) (fun a _ => ⟨a, rfl⟩)
      · rename_i hacc
        cases hs
        obtain ⟨h1, h2, h3, h4, h5, h6⟩ := h
        refine ⟨?_, ?_, ?_, ?_, ?_, ?_⟩
        · simpa [emit] using h1
        · rw [observed_emit]; simpa [observed, emit, Obs.id?] using h2
        · simp [emit, h3, happ]
        · intro _; simp [emit, hacc]
        · intro c hc
          simp only [emit] at hc
          have := (h5 c hc).1
          rw [hacc] at this; cases this
        · simpa [emit] using h6
  | deliver =>
    simp only [step] at hs
    split at hs
    · rename_i k e rest happ hpend
      obtain ⟨h1, h2, h3, h4, h5, h6⟩ := h
      have hnd : noDisc s.taken := by
        intro x hx
        cases x with
        | disc c => have := (h5 c hx).2.1; rw [happ] at this; cases this
        | text n => rfl
        | bytes n => rfl
      have hobs : ∀ (s1 : S), s1.out = s.out → s1.taken = s.taken ++ [e] →
          observed (emit s1 (payloadObs k e)) = s1.taken.map CEv.id := by
        intro s1 ho ht
        rw [observed_emit, payloadObs_id]
        simp only [observed, ho, ht, List.map_append, Option.toList]
        unfold observed at h2; rw [h2]; simp
      cases e with
      | disc c =>
        simp only at hs; cases hs
        refine ⟨?_, ?_, ?_, ?_, ?_, ?_⟩
        · simp [emit, ← h1, hpend]
        · exact hobs _ rfl rfl
        · simp [emit, h3, happ]
        · intro hp; simp [emit] at hp
        · intro c' hc'
          simp only [emit, List.mem_append, List.mem_singleton] at hc' ⊢
          rcases hc' with hc' | hc'
          · have := hnd _ hc'; simp [CEv.isDisc] at this
          · cases hc'; simp
        · simp only [emit, List.dropLast_concat]; exact hnd
      | text n =>
        simp only at hs; cases hs
        refine ⟨?_, ?_, ?_, ?_, ?_, ?_⟩
        · simp [emit, ← h1, hpend]
        · exact hobs _ rfl rfl
        · simp [emit, h3, happ]
        · intro hp; simp [emit] at hp
        · intro c' hc'
          simp only [emit, List.mem_append, List.mem_singleton] at hc'
          rcases hc' with hc' | hc'
          · have := hnd _ hc'; simp [CEv.isDisc] at this
          · cases hc'
        · simp only [emit, List.dropLast_concat]; exact hnd
      | bytes n =>
        simp only at hs; cases hs
        refine ⟨?_, ?_, ?_, ?_, ?_, ?_⟩
        · simp [emit, ← h1, hpend]
        · exact hobs _ rfl rfl
        · simp [emit, h3, happ]
        · intro hp; simp [emit] at hp
        · intro c' hc'
          simp only [emit, List.mem_append, List.mem_singleton] at hc'
          rcases hc' with hc' | hc'
          · have := hnd _ hc'; simp [CEv.isDisc] at this
          · cases hc'
        · simp only [emit, List.dropLast_concat]; exact hnd
    · cases hs
  | cancel =>
    simp only [step] at hs
    split at hs
    · rename_i k happ
      cases hs
      obtain ⟨h1, h2, h3, h4, h5, h6⟩ := h
      refine ⟨?_, ?_, ?_, ?_, ?_, ?_⟩
      · simpa [emit] using h1
      · rw [observed_emit]; simpa [observed, emit, Obs.id?] using h2
      · simp [emit, h3, happ]
      · intro hp; simp [emit] at hp
      · intro c hc
        simp only [emit] at hc
        have := (h5 c hc).2.1
        rw [happ] at this; cases this
      · simpa [emit] using h6
    · cases hs
  | send r =>
    simp only [step] at hs
    split at hs
    · cases hs
      exact inv_of_frame arrived s s _ h rfl rfl rfl rfl rfl rfl (fun hp => h.parked_not_handshake hp) (fun a _ => ⟨a, rfl⟩)
    · cases hs
      exact inv_of_frame arrived s s _ h rfl rfl rfl rfl rfl rfl (fun hp => h.parked_not_handshake hp) (fun a _ => ⟨a, rfl⟩)
    · rename_i hacc
      have hne : s.state = .closed → False := by intro a; rw [hacc] at a; cases a
      split at hs <;> cases hs <;>
        exact inv_of_frame arrived s _ _ h rfl rfl rfl rfl rfl rfl (fun _ => by simp [hacc]) (fun a _ => (hne a).elim)
  | close code =>
    simp only [step] at hs
    split at hs
    · cases hs
      exact inv_of_frame arrived s s _ h rfl rfl rfl rfl rfl rfl (fun hp => h.parked_not_handshake hp) (fun a _ => ⟨a, rfl⟩)
    · split at hs
      · cases hs
        exact inv_of_frame arrived s s _ h rfl rfl rfl rfl rfl rfl (fun hp => h.parked_not_handshake hp) (fun a _ => ⟨a, rfl⟩)
      · rename_i hncl
        cases hs
        refine inv_of_frame arrived s _ _ h rfl rfl rfl rfl rfl rfl (fun _ => by simp) (fun a _ => ?_)
        simp [a] at hncl

/-- **the invariant holds after every schedule** -/
theorem run_inv (arrived : List CEv) : ∀ (ls : List Label) (s s' : S), Inv arrived s → runFrom s ls = some s' → Inv arrived s' := by
  intro ls
  induction ls with
  | nil => intro s s' h hr; simp only [runFrom, Option.some.injEq] at hr; subst hr; exact h
  | cons l ls ih =>
    intro s s' h hr
    simp only [runFrom] at hr
    split at hr
    · rename_i s1 hs1
      exact ih s1 s' (step_preserves arrived s s1 l h hs1) hr
    · cases hr

/-! ### FIFO, lossless, once; nothing buffered -/

/-- **C18 unbuffered `fifo_lossless_once`**: after every schedule, what the receives consumed (returned, or reported as
    `PayloadTypeError` / `WebSocketDisconnected`), followed by what is still at the server, is exactly the arrival sequence:
    same order, nothing lost, nothing duplicated -/
theorem fifo_lossless_once (arrived : List CEv) (ls : List Label) (s : S) (hr : runFrom (init arrived) ls = some s) :
    observed s ++ s.pending.map CEv.id = arrived.map CEv.id ∧ s.taken ++ s.pending = arrived ∧
    observed s = s.taken.map CEv.id := by
  have h := run_inv arrived ls _ s (inv_init arrived) hr
  refine ⟨?_, h.conserve, h.observed_eq⟩
  rw [h.observed_eq, ← List.map_append, h.conserve]

example : (runFrom (init [.text 0, .bytes 1, .text 2, .disc (some 1001)])
    [.recv .text, .accept, .recv .text, .deliver, .send none, .recv .text, .cancel, .recv .text, .deliver, .recv .data]).map
    (fun s => (observed s, s.pending.map CEv.id, s.out)) =
    some ([0, 1], [2, discId],
      [.notAllowed, .acceptOk, .parked, .ret 0, .sendOk, .parked, .cancelled, .parked, .payloadErr 1, .parked]) := by decide

/-- events handed to the framework that the application has not been given yet -/
def heldU (s : S) : Nat := s.taken.length - (observed s).length

/-- **C18 unbuffered `nothing_buffered`**: after every schedule the framework holds no event (bound 0), at most one pull of the
    server is outstanding, and one is outstanding exactly while a receive is parked: nothing is pulled ahead -/
theorem nothing_buffered (arrived : List CEv) (ls : List Label) (s : S) (hr : runFrom (init arrived) ls = some s) :
    heldU s = 0 ∧ (observed s).length = s.taken.length ∧ s.pulls ≤ 1 ∧ (s.pulls = 1 ↔ s.app.isSome) := by
  have h := run_inv arrived ls _ s (inv_init arrived) hr
  have hp := h.pulls_eq
  refine ⟨?_, ?_, ?_, ?_⟩
  · simp [heldU, h.observed_eq]
  · simp [h.observed_eq]
  · cases ha : s.app <;> simp [ha] at hp <;> omega
  · cases ha : s.app <;> simp [ha] at hp <;> simp [hp]

/-! ### the disconnect: exactly after the preceding messages, and sticky -/

theorem mem_last_of_not_dropLast (l : List CEv) (e : CEv) (he : e ∈ l) (hn : e ∉ l.dropLast) : l = l.dropLast ++ [e] := by
  have hne : l ≠ [] := by intro h; rw [h] at he; cases he
  have h := List.dropLast_concat_getLast hne
  rw [← h] at he
  simp only [List.mem_append, List.mem_singleton] at he
  rcases he with he | he
  · exact absurd he hn
  · rw [he]; exact h.symm

/-- **C18 unbuffered `disconnect_after_preceding`**: if, after any schedule, a disconnect event has been handed over, then it is
    the last event handed over, everything that arrived before it was consumed by receives before it (in order, each once), and
    the receive that took it raised `WebSocketDisconnected` as the last consuming observation -/
theorem disconnect_after_preceding (arrived : List CEv) (ls : List Label) (s : S) (hr : runFrom (init arrived) ls = some s)
    (c : Option Nat) (hc : CEv.disc c ∈ s.taken) :
    ∃ pre, noDisc pre ∧ s.taken = pre ++ [.disc c] ∧ arrived = pre ++ .disc c :: s.pending ∧
      observed s = pre.map CEv.id ++ [discId] := by
  have h := run_inv arrived ls _ s (inv_init arrived) hr
  have hn : CEv.disc c ∉ s.taken.dropLast := by
    intro hm; have := h.disc_last _ hm; simp [CEv.isDisc] at this
  have ht := mem_last_of_not_dropLast _ _ hc hn
  refine ⟨s.taken.dropLast, h.disc_last, ht, ?_, ?_⟩
  · rw [← h.conserve]; conv => lhs; rw [ht]
    simp
  · rw [h.observed_eq]; conv => lhs; rw [ht]
    simp [CEv.id]

example : (runFrom (init [.text 0, .disc none, .text 1])
    [.accept, .recv .text, .deliver, .recv .text, .deliver, .recv .text]).map
    (fun s => (observed s, s.pending, s.out.drop 3)) =
    some ([0, discId], [.text 1], [.parked, .wsdEvent 1000, .wsdState 1000]) := by decide

/-- the socket is closed, nobody is parked in a receive, and `_close_code = code` -/
def Dead (code : Option Nat) (s : S) : Prop := s.state = .closed ∧ s.app = none ∧ s.closeCode = code

/-- `closed` is monotone through every step (even while a receive is still parked) -/
theorem closed_monotone (s s' : S) (l : Label) (hs : step s l = some s') (hc : s.state = .closed) : s'.state = .closed := by
  cases l with
  | accept => simp only [step, hc] at hs; simp at hs; cases hs; exact hc
  | recv k =>
    simp only [step, hc] at hs
    split at hs
    · cases hs
    · cases hs; exact hc
  | deliver =>
    simp only [step] at hs
    split at hs
    · rename_i k e rest _ _
      cases e <;> (simp only at hs; cases hs) <;> first | rfl | exact hc
    · cases hs
  | cancel =>
    simp only [step] at hs
    split at hs
    · cases hs; exact hc
    · cases hs
  | send r => simp only [step, hc] at hs; cases hs; exact hc
  | close code =>
    simp only [step, hc] at hs
    split at hs <;> (simp at hs; cases hs; exact hc)

/-- in a dead state every step leaves the server boundary, the close code and the sent events untouched and consumes nothing;
    a receive raises `WebSocketDisconnected(_close_code)` without pulling -/
theorem dead_step (code : Option Nat) (s s' : S) (l : Label) (hd : Dead code s) (hs : step s l = some s') :
    Dead code s' ∧ s'.pending = s.pending ∧ s'.taken = s.taken ∧ s'.pulls = s.pulls ∧ s'.sent = s.sent ∧
    ∃ o, s'.out = s.out ++ [o] ∧ o.id? = none ∧ (∀ k, l = .recv k → o = .wsdState (excCode code)) := by
  obtain ⟨h1, h2, h3⟩ := hd
  cases l with
  | accept =>
    simp only [step, h1] at hs; simp at hs; cases hs
    exact ⟨⟨h1, h2, h3⟩, rfl, rfl, rfl, rfl, _, rfl, rfl, by intro k hk; cases hk⟩
  | recv k =>
    simp only [step, h1, h2] at hs; simp at hs; cases hs
    refine ⟨⟨h1, h2, h3⟩, rfl, rfl, rfl, rfl, _, rfl, rfl, ?_⟩
    intro k' _; rw [h3]
  | deliver => simp only [step, h2] at hs; cases hs
  | cancel => simp only [step, h2] at hs; cases hs
  | send r =>
    simp only [step, h1] at hs; cases hs
    exact ⟨⟨h1, h2, h3⟩, rfl, rfl, rfl, rfl, _, rfl, rfl, by intro k hk; cases hk⟩
  | close c =>
    simp only [step, h1] at hs
    split at hs <;> (simp at hs; cases hs) <;>
      exact ⟨⟨h1, h2, h3⟩, rfl, rfl, rfl, rfl, _, rfl, rfl, by intro k hk; cases hk⟩

theorem dead_run (code : Option Nat) : ∀ (ls : List Label) (s s' : S), Dead code s → runFrom s ls = some s' →
    Dead code s' ∧ s'.pending = s.pending ∧ s'.taken = s.taken ∧ observed s' = observed s := by
  intro ls
  induction ls with
  | nil => intro s s' h hr; simp only [runFrom, Option.some.injEq] at hr; subst hr; exact ⟨h, rfl, rfl, rfl⟩
  | cons l ls ih =>
    intro s s' h hr
    simp only [runFrom] at hr
    split at hr
    · rename_i s1 hs1
      obtain ⟨d1, p1, t1, _, _, o, ho, hid, _⟩ := dead_step code s s1 l h hs1
      obtain ⟨d2, p2, t2, o2⟩ := ih s1 s' d1 hr
      refine ⟨d2, by rw [p2, p1], by rw [t2, t1], ?_⟩
      rw [o2]; unfold observed; rw [ho]; simp [List.filterMap_append, List.filterMap, hid]
    · cases hr

/-- **C18 unbuffered `disconnect_sticky`**: once a receive has taken the client's disconnect event (after any schedule), then
    after every further schedule nothing more is consumed or pulled, and every receive call raises `WebSocketDisconnected`
    carrying the client's code -/
theorem disconnect_sticky (arrived : List CEv) (ls : List Label) (s : S) (hr : runFrom (init arrived) ls = some s)
    (c : Option Nat) (hc : CEv.disc c ∈ s.taken) (ls' : List Label) (s' : S) (hr' : runFrom s ls' = some s') :
    s'.taken = s.taken ∧ s'.pending = s.pending ∧ observed s' = observed s ∧ s'.pulls = 0 ∧
    ∀ k, step s' (.recv k) = some (emit s' (.wsdState (excCode (some (c.getD 1000))))) := by
  have h := run_inv arrived ls _ s (inv_init arrived) hr
  have hd : Dead (some (c.getD 1000)) s := h.disc_closed c hc
  obtain ⟨⟨d1, d2, d3⟩, p, t, o⟩ := dead_run _ ls' s s' hd hr'
  have hinv := run_inv arrived ls' s s' h hr'
  refine ⟨t, p, o, ?_, ?_⟩
  · have := hinv.pulls_eq; simpa [d2] using this
  · intro k; simp only [step, d1, d2, d3]; simp

/-! ### enabledness (fairness-free liveness) -/

/-- a receive call is always possible when none is in progress -/
theorem recv_enabled (s : S) (k : RecvKind) (h : s.app = none) : (step s (.recv k)).isSome = true := by
  simp only [step, h]
  cases s.state <;> simp

/-- the server can hand over an event exactly when a receive is parked and an event is available -/
theorem deliver_enabled_iff (s : S) : (step s .deliver).isSome = true ↔ s.app.isSome = true ∧ s.pending ≠ [] := by
  simp only [step]
  cases ha : s.app with
  | none => simp
  | some k =>
    cases hp : s.pending with
    | nil => simp
    | cons e rest => cases e <;> simp

/-- **C18 unbuffered `parked_receive_completes`**: a parked receive with an event available at the server has an enabled step,
    and that step completes the receive with exactly that event (no lost wake-up: nothing inside the framework stands between
    the server's event and the parked call) -/
theorem parked_receive_completes (s : S) (k : RecvKind) (e : CEv) (rest : List CEv) (ha : s.app = some k)
    (hp : s.pending = e :: rest) :
    ∃ s', step s .deliver = some s' ∧ s'.app = none ∧ s'.pending = rest ∧ s'.taken = s.taken ++ [e] ∧
      s'.out = s.out ++ [payloadObs k e] := by
  simp only [step, ha, hp]
  cases e <;> exact ⟨_, rfl, rfl, rfl, rfl, rfl⟩

end Wu

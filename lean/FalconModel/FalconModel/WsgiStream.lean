/-! Prototype for C07: model of falcon/stream.py BoundedStream (pinned code, defects F02/F03 included)
    over a raw file-like `wsgi.input` (io.BytesIO semantics + a short-read oracle for read()). -/
namespace Ws7
abbrev Bytes := List UInt8

structure Raw where
  data : Bytes
  shorts : List Nat := []       -- caps for successive raw.read(n) calls (0 = no cap)
  asked : List Int := []        -- sizes passed to raw.read / readline / readlines (log)
deriving Repr

def capOf (sh : List Nat) (n : Nat) : Nat := match sh with | [] => n | c :: _ => if c == 0 then n else min c n

/-- raw.read(size): size < 0 ⇒ everything -/
def Raw.read (r : Raw) (size : Int) : Bytes × Raw :=
  let n := if size < 0 then r.data.length else size.toNat
  let k := min (capOf r.shorts n) r.data.length
  (r.data.take k, { data := r.data.drop k, shorts := r.shorts.drop 1, asked := r.asked ++ [size] })

/-- length of the first line (incl. '\n') -/
def lineLen : Bytes → Nat
  | [] => 0
  | c :: rest => if c == 10 then 1 else 1 + lineLen rest

/-- raw.readline(limit): limit < 0 ⇒ no limit -/
def Raw.readline (r : Raw) (limit : Int) (log : Bool := true) : Bytes × Raw :=
  let l := lineLen r.data
  let k := if limit < 0 then l else min l limit.toNat
  (r.data.take k, { r with data := r.data.drop k, asked := if log then r.asked ++ [limit] else r.asked })

/-- raw.readlines(hint): hint ≤ 0 ⇒ all lines; otherwise stop once the total reaches hint -/
def readlinesLoop : Nat → Raw → Int → Nat → List Bytes → List Bytes × Raw
  | 0, r, _, _, acc => (acc, r)
  | fuel + 1, r, hint, total, acc =>
    if r.data.isEmpty then (acc, r) else
    let (line, r) := r.readline (-1) false
    let total := total + line.length
    if hint > 0 && (total : Int) ≥ hint then (acc ++ [line], r)
    else readlinesLoop fuel r hint total (acc ++ [line])

def Raw.readlines (r : Raw) (hint : Int) : List Bytes × Raw :=
  let (ls, r') := readlinesLoop (r.data.length + 1) r hint 0 []
  (ls, { r' with asked := r.asked ++ [hint] })

structure S where
  remaining : Int
  raw : Raw
deriving Repr

/-- `_read(size, target)`: clamp to the budget, deduct the *requested* size (pinned: F02) -/
def clamp (s : S) (size : Option Int) : Int × S :=
  let sz := match size with
    | none => s.remaining
    | some n => if n == -1 || n > s.remaining then s.remaining else n
  (sz, { s with remaining := s.remaining - sz })

def read (s : S) (size : Option Int) : Bytes × S :=
  let (sz, s) := clamp s size
  let (d, raw) := s.raw.read sz
  (d, { s with raw := raw })

def readline (s : S) (limit : Option Int) : Bytes × S :=
  let (sz, s) := clamp s limit
  let (d, raw) := s.raw.readline sz
  (d, { s with raw := raw })

def readlines (s : S) (hint : Option Int) : List Bytes × S :=
  let (sz, s) := clamp s hint
  let (d, raw) := s.raw.readlines sz
  (d, { s with raw := raw })

/-- `__next__` proxies to the raw stream, bypassing the budget (pinned: F03); none = StopIteration -/
def next (s : S) : Option Bytes × S :=
  if s.raw.data.isEmpty then (none, s)
  else let (d, raw) := s.raw.readline (-1) false; (some d, { s with raw := raw })

def exhaustLoop : Nat → S → Int → S
  | 0, s, _ => s
  | fuel + 1, s, chunk =>
    let (d, s) := read s (some chunk)
    if d.isEmpty then s else exhaustLoop fuel s chunk
def exhaust (s : S) (chunk : Int) : S := exhaustLoop (s.raw.data.length + 2) s chunk

def eof (s : S) : Bool := s.remaining ≤ 0
end Ws7

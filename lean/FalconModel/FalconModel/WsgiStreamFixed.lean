import FalconModel.WsgiStream
/-! C07: `falcon/stream.py` BoundedStream **after the F02/F03 repair** (Appendix C of DESIGN.md): the budget is
    reduced by what was actually returned, negative sizes mean "all", `__next__` and `readlines` go through
    `readline`. Same raw-stream model as the pinned version. -/
namespace Ws7F
open Ws7 (Bytes Raw S lineLen)

def clamp (s : S) (size : Option Int) : Int :=
  match size with
  | none => s.remaining
  | some n => if n < 0 || n > s.remaining then s.remaining else n

def read (s : S) (size : Option Int) : Bytes × S :=
  let (d, raw) := s.raw.read (clamp s size)
  (d, { remaining := s.remaining - d.length, raw := raw })

def readline (s : S) (limit : Option Int) : Bytes × S :=
  let (d, raw) := s.raw.readline (clamp s limit)
  (d, { remaining := s.remaining - d.length, raw := raw })

def readlinesLoop : Nat → S → Int → Int → List Bytes → List Bytes × S
  | 0, s, _, _, acc => (acc, s)
  | fuel + 1, s, hint, total, acc =>
    if total < hint then
      let (line, s) := readline s none
      if line.isEmpty then (acc, s) else readlinesLoop fuel s hint (total + line.length) (acc ++ [line])
    else (acc, s)

def readlines (s : S) (hint : Option Int) : List Bytes × S :=
  let h := match hint with
    | none => s.remaining
    | some n => if n ≤ 0 then s.remaining else n
  readlinesLoop (s.raw.data.length + 1) s h 0 []

def next (s : S) : Option Bytes × S :=
  let (line, s) := readline s none
  if line.isEmpty then (none, s) else (some line, s)

def exhaustLoop : Nat → S → Int → S
  | 0, s, _ => s
  | fuel + 1, s, chunk =>
    let (d, s) := read s (some chunk)
    if d.isEmpty then s else exhaustLoop fuel s chunk
def exhaust (s : S) (chunk : Int) : S := exhaustLoop (s.raw.data.length + 2) s chunk

def eof (s : S) : Bool := s.remaining ≤ 0
end Ws7F

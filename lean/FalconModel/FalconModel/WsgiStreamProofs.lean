import FalconModel.WsgiStreamFixed
/-! C07 (WSGI): the repaired `BoundedStream` is a cursor over the declared body — every operation returns the next
    bytes of `raw[:Content-Length]`, consumes from the raw stream exactly what it returns, and never asks it for more
    than what is still declared. -/
namespace Ws7F
open Ws7 (Bytes Raw S lineLen capOf)

/-- what is still declared and not yet handed out -/
def absS (s : S) : Bytes := s.raw.data.take s.remaining.toNat

/-- "this step handed out `o`": it is the next part of the declared body, the raw stream advanced by exactly that much,
    and the budget stays non-negative -/
structure Step (s : S) (o : Bytes) (s' : S) : Prop where
  out : o = (absS s).take o.length
  rest : absS s' = (absS s).drop o.length
  raw : s'.raw.data = s.raw.data.drop o.length
  rem : s'.remaining = s.remaining - o.length
  nonneg : 0 ≤ s'.remaining

theorem take_take_le (l : Bytes) (k n : Nat) (h : k ≤ n) : (l.take n).take k = l.take k := by
  rw [List.take_take]; congr 1; omega

theorem take_sub_drop (l : Bytes) (k n : Nat) (h : k ≤ n) : (l.drop k).take (n - k) = (l.take n).drop k := by
  rw [List.drop_take]

/-- the common core: the raw stream returned its first `k` bytes, `k` within the budget -/
theorem step_of_prefix (s : S) (k : Nat) (raw' : Raw) (h0 : 0 ≤ s.remaining) (hk : (k : Int) ≤ s.remaining)
    (hkd : k ≤ s.raw.data.length) (hraw : raw'.data = s.raw.data.drop k) :
    Step s (s.raw.data.take k) { remaining := s.remaining - ((s.raw.data.take k).length : Nat), raw := raw' } := by
  have hl : (s.raw.data.take k).length = k := by rw [List.length_take]; omega
  refine ⟨?_, ?_, ?_, ?_, ?_⟩
  · rw [hl]; unfold absS; rw [take_take_le _ _ _ (by omega)]
  · rw [hl]; unfold absS; simp only [hraw]
    have : (s.remaining - (k : Int)).toNat = s.remaining.toNat - k := by omega
    rw [this, take_sub_drop _ _ _ (by omega)]
  · rw [hl]; exact hraw
  · rfl
  · simp only [hl]; omega

theorem clamp_bounds (s : S) (size : Option Int) (h0 : 0 ≤ s.remaining) :
    0 ≤ clamp s size ∧ clamp s size ≤ s.remaining := by
  unfold clamp
  cases size with
  | none => exact ⟨h0, Int.le_refl _⟩
  | some n =>
    simp only
    split
    · exact ⟨h0, Int.le_refl _⟩
    · rename_i h; simp at h; omega

theorem capOf_le (sh : List Nat) (n : Nat) : capOf sh n ≤ n := by
  unfold capOf; split
  · omega
  · split <;> omega

/-- `read(size)` -/
theorem read_step (s : S) (size : Option Int) (h0 : 0 ≤ s.remaining) :
    Step s (read s size).1 (read s size).2 ∧ ((read s size).1.length : Int) ≤ clamp s size := by
  obtain ⟨c0, c1⟩ := clamp_bounds s size h0
  unfold read Raw.read
  have hneg : ¬ clamp s size < 0 := by omega
  simp only [hneg, if_false]
  have hk := capOf_le s.raw.shorts (clamp s size).toNat
  refine ⟨step_of_prefix s _ _ h0 (by omega) (by omega) rfl, ?_⟩
  rw [List.length_take]; omega

theorem lineLen_le (l : Bytes) : lineLen l ≤ l.length := by
  induction l with
  | nil => simp [lineLen]
  | cons c rest ih => unfold lineLen; split <;> simp <;> omega

/-- `readline(limit)` -/
theorem readline_step (s : S) (limit : Option Int) (h0 : 0 ≤ s.remaining) :
    Step s (readline s limit).1 (readline s limit).2 ∧
    (readline s limit).1 = s.raw.data.take (min (lineLen s.raw.data) (clamp s limit).toNat) := by
  obtain ⟨c0, c1⟩ := clamp_bounds s limit h0
  unfold readline Raw.readline
  have hneg : ¬ clamp s limit < 0 := by omega
  simp only [hneg, if_false]
  have := lineLen_le s.raw.data
  exact ⟨step_of_prefix s _ _ h0 (by omega) (by omega) rfl, by first | rfl | trivial⟩

/-- steps compose: handing out `o₁` and then `o₂` is handing out `o₁ ++ o₂` -/
theorem Step.trans {s s1 s2 : S} {o1 o2 : Bytes} (h1 : Step s o1 s1) (h2 : Step s1 o2 s2) :
    Step s (o1 ++ o2) s2 := by
  refine ⟨?_, ?_, ?_, ?_, h2.nonneg⟩
  · rw [List.length_append, List.take_add]
    rw [← h1.out, ← h1.rest, ← h2.out]
  · rw [h2.rest, h1.rest, List.length_append, List.drop_drop]
  · rw [h2.raw, h1.raw, List.length_append, List.drop_drop]
  · rw [h2.rem, h1.rem, List.length_append]; omega

theorem Step.refl (s : S) (h0 : 0 ≤ s.remaining) : Step s [] s :=
  ⟨by simp, by simp, by simp, by simp, h0⟩

/-- `readlines(hint)`: the lines returned are consecutive pieces of the declared body -/
theorem readlinesLoop_step : ∀ (fuel : Nat) (s : S) (hint total : Int) (acc : List Bytes) (s0 : S),
    Step s0 acc.flatten s → Step s0 (readlinesLoop fuel s hint total acc).1.flatten (readlinesLoop fuel s hint total acc).2 := by
  intro fuel
  induction fuel with
  | zero => intro s hint total acc s0 h; exact h
  | succ n ih =>
    intro s hint total acc s0 h
    unfold readlinesLoop
    split
    · have hl := (readline_step s none h.nonneg).1
      rcases hr : readline s none with ⟨line, s1⟩
      rw [hr] at hl
      simp only
      split
      · rename_i he
        have hnil : line = [] := by simpa using he
        have := h.trans hl
        rw [hnil, List.append_nil] at this
        exact this
      · apply ih
        rw [List.flatten_append]
        simpa using h.trans hl
    · exact h

theorem readlines_step (s : S) (hint : Option Int) (h0 : 0 ≤ s.remaining) :
    Step s (readlines s hint).1.flatten (readlines s hint).2 :=
  readlinesLoop_step _ s _ 0 [] s (Step.refl s h0)

/-- iteration (`__next__`) is bounded like every other read -/
theorem next_step (s : S) (h0 : 0 ≤ s.remaining) :
    Step s ((next s).1.getD []) (next s).2 := by
  unfold next
  have hl := (readline_step s none h0).1
  rcases hr : readline s none with ⟨line, s1⟩
  rw [hr] at hl
  simp only
  split
  · rename_i he
    have : line = [] := by simpa using he
    subst this; simpa using hl
  · simpa using hl

/-- one operation of the file-like API -/
inductive Op where
  | read (size : Option Int) | readline (limit : Option Int) | readlines (hint : Option Int) | next
deriving Repr

def runOp (s : S) : Op → Bytes × S
  | .read n => read s n
  | .readline n => readline s n
  | .readlines n => let (ls, s) := readlines s n; (ls.flatten, s)
  | .next => let (l, s) := next s; (l.getD [], s)

theorem runOp_step (s : S) (o : Op) (h0 : 0 ≤ s.remaining) : Step s (runOp s o).1 (runOp s o).2 := by
  cases o with
  | read n => exact (read_step s n h0).1
  | readline n => exact (readline_step s n h0).1
  | readlines n => exact readlines_step s n h0
  | next => exact next_step s h0

def runOps : S → List Op → Bytes × S
  | s, [] => ([], s)
  | s, o :: rest => let (d, s1) := runOp s o; let (d2, s2) := runOps s1 rest; (d ++ d2, s2)

/-- **C07 (WSGI) `history_refines_cursor`**: after any history of reads, everything handed out so far is a prefix of
    `raw[:Content-Length]`, the raw stream was advanced by exactly that many bytes — never past the declared length —
    and what the stream will still hand out is exactly the rest. -/
theorem history_refines_cursor (ops : List Op) : ∀ (s : S), 0 ≤ s.remaining →
    Step s (runOps s ops).1 (runOps s ops).2 := by
  induction ops with
  | nil => intro s h0; exact Step.refl s h0
  | cons o rest ih =>
    intro s h0
    rcases hr : runOp s o with ⟨d, s1⟩
    rcases hr2 : runOps s1 rest with ⟨d2, s2⟩
    have h1 := runOp_step s o h0
    rw [hr] at h1
    have h2 := ih s1 h1.nonneg
    rw [hr2] at h2
    simp only [runOps, hr, hr2]
    exact h1.trans h2

/-- corollary: the raw stream is never read past the declared length -/
theorem never_overreads (ops : List Op) (s : S) (h0 : 0 ≤ s.remaining) :
    ((runOps s ops).1.length : Int) ≤ s.remaining ∧
    (runOps s ops).2.raw.data = s.raw.data.drop (runOps s ops).1.length := by
  have h := history_refines_cursor ops s h0
  refine ⟨?_, h.raw⟩
  have := h.rem; have := h.nonneg; omega

theorem capOf_pos (sh : List Nat) (n : Nat) (h : 0 < n) : 0 < capOf sh n := by
  unfold capOf; split
  · exact h
  · rename_i c _
    by_cases hc : c = 0
    · simp [hc]; exact h
    · have : (c == 0) = false := by simp [hc]
      simp only [this]; simp; omega

/-- `exhaust(chunk_size)`: discards the next bytes of the declared body until nothing is left of it (or the raw stream
    ends early), never reading past the declared length -/
theorem exhaustLoop_step (chunk : Int) (hch : 0 < chunk) : ∀ (fuel : Nat) (s0 s : S) (acc : Bytes),
    Step s0 acc s → s.raw.data.length < fuel →
    (∃ X, Step s0 X (exhaustLoop fuel s chunk)) ∧ absS (exhaustLoop fuel s chunk) = [] := by
  intro fuel
  induction fuel with
  | zero => intro s0 s acc h hf; omega
  | succ n ih =>
    intro s0 s acc h hf
    unfold exhaustLoop
    obtain ⟨hs, hlen⟩ := read_step s (some chunk) h.nonneg
    rcases hr : read s (some chunk) with ⟨d, s1⟩
    rw [hr] at hs hlen
    simp only at hs hlen ⊢
    by_cases hd : d.isEmpty = true
    · simp only [hd, if_true]
      have hdn : d = [] := by simpa using hd
      subst hdn
      refine ⟨⟨acc, by simpa using h.trans hs⟩, ?_⟩
      -- an empty read: the budget is used up or the raw stream is at its end
      have hrest := hs.rest
      simp only [List.length_nil, List.drop_zero] at hrest
      rw [hrest]
      have : (read s (some chunk)).1 = [] := by rw [hr]
      unfold read Ws7.Raw.read at this
      obtain ⟨c0, c1⟩ := clamp_bounds s (some chunk) h.nonneg
      have hneg : ¬ clamp s (some chunk) < 0 := by omega
      simp only [hneg, if_false] at this
      have hk : min (capOf s.raw.shorts (clamp s (some chunk)).toNat) s.raw.data.length = 0 := by
        have := congrArg List.length this
        simpa [List.length_take] using this
      unfold absS
      by_cases hdat : s.raw.data.length = 0
      · have : s.raw.data = [] := List.eq_nil_of_length_eq_zero hdat
        rw [this]; simp
      · have hcap : capOf s.raw.shorts (clamp s (some chunk)).toNat = 0 := by omega
        have hcl : (clamp s (some chunk)).toNat = 0 := by
          by_cases hz : (clamp s (some chunk)).toNat = 0
          · exact hz
          · have hp : 0 < (clamp s (some chunk)).toNat := by omega
            have := capOf_pos s.raw.shorts (clamp s (some chunk)).toNat hp
            omega
        have hn0 := h.nonneg
        have hrem : s.remaining = 0 := by
          unfold clamp at hcl; simp only at hcl
          by_cases hbig : (chunk < 0 || chunk > s.remaining) = true
          · simp only [hbig, if_true] at hcl; omega
          · simp only [hbig, Bool.false_eq_true, if_false] at hcl; omega
        rw [hrem]; simp
    · simp only [hd, Bool.false_eq_true, if_false]
      have hpos : 0 < d.length := by
        cases d with
        | nil => simp at hd
        | cons a b => simp
      have hle : d.length ≤ s.raw.data.length := by
        have := congrArg List.length hs.out
        simp only [absS, List.length_take] at this
        omega
      have hdata : s1.raw.data.length < n := by rw [hs.raw, List.length_drop]; omega
      exact ih s0 s1 (acc ++ d) (h.trans hs) hdata

theorem exhaust_step (s : S) (chunk : Int) (hch : 0 < chunk) (h0 : 0 ≤ s.remaining) :
    (∃ X, Step s X (exhaust s chunk)) ∧ absS (exhaust s chunk) = [] :=
  exhaustLoop_step chunk hch _ s s [] (Step.refl s h0) (by omega)

#print axioms exhaust_step
#print axioms history_refines_cursor
#print axioms never_overreads

/-- non-vacuity and the F02/F03 inputs on the repaired model: `readline` leaves the budget right, iteration stops at
    the declared length -/
example :
    let s : S := { remaining := 4, raw := { data := [97, 10, 98, 10, 69, 88, 84, 82, 65, 10] } }
    (readline s none).1 = [97, 10] ∧ eof (readline s none).2 = false ∧
    (runOps s [.next, .next, .next]).1 = [97, 10, 98, 10] := by decide
end Ws7F

namespace Ws7
/-- F02 on the pinned model: after the first line the stream claims end-of-file with half the body unread -/
theorem f02_witness :
    let s : S := { remaining := 4, raw := { data := [97, 10, 98, 10, 69, 88, 84, 82, 65, 10] } }
    (readline s none).1 = [97, 10] ∧ eof (readline s none).2 = true ∧ (read (readline s none).2 none).1 = [] := by decide
/-- F03 on the pinned model: iteration hands out bytes beyond the declared length -/
theorem f03_witness :
    let s : S := { remaining := 4, raw := { data := [97, 10, 98, 10, 69, 88, 84, 82, 65, 10] } }
    (next (next (next s).2).2).1 = some [69, 88, 84, 82, 65, 10] := by decide
end Ws7

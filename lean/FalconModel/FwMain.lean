import FalconModel.Forwarded
import FalconModel.Cookies
/-! line-protocol driver for the C09 Forwarded / access_route / Cookie models (all strings hex-encoded Latin-1, `-` = empty) -/
open Hp (Str)
def hexD (n : Nat) : Char := if n < 10 then Char.ofNat (48+n) else Char.ofNat (87+n)
def toHex (s : Str) : String := if s.isEmpty then "-" else String.ofList (s.flatMap fun c => [hexD (c.toNat/16), hexD (c.toNat%16)])
def hv (c : Char) : Nat := if c.isDigit then c.toNat - 48 else c.toNat - 87
def fromHex (s : String) : Str :=
  let rec go : List Char → Str
    | a :: b :: r => Char.ofNat (hv a * 16 + hv b) :: go r
    | _ => []
  if s == "-" then [] else go s.toList
def optS (s : String) : Option Str := if s == "none" then none else some (fromHex s)
def showO : Option Str → String | none => "none" | some s => toHex s
def showFwd (e : Fw.Fwd) : String := s!"{showO e.src}|{showO e.dest}|{showO e.host}|{showO e.scheme}"
def step (line : String) : String :=
  match line.trimAscii.toString.splitOn " " with
  | ["forwarded", v] => " ".intercalate ("els" :: (Fw.parseForwarded (fromHex v)).map showFwd)
  | ["route", asgi, f, x, r, remote] =>
    " ".intercalate ("route" :: (Fw.accessRoute (asgi == "1") (optS f) (optS x) (optS r) (fromHex remote)).map toHex)
  | ["route2", asgi, f, x, r, remote] =>     -- two accesses through the memo cell
    let a1 := Fw.accessRouteMemo none (asgi == "1") (optS f) (optS x) (optS r) (fromHex remote)
    let a2 := Fw.accessRouteMemo a1.2 (asgi == "1") (optS f) (optS x) (optS r) (fromHex remote)
    " ".intercalate ("route" :: a1.1.map toHex) ++ " / " ++ " ".intercalate ("route" :: a2.1.map toHex)
  | ["unquote", v] => toHex (Fw.unquoteString (fromHex v))
  | ["cookies", v] => " ".intercalate ("ck" :: (Ck.reqCookies (optS v)).map fun nv => toHex nv.1 ++ "=" ++ toHex nv.2)
  | ["jar", v] => " ".intercalate ("jar" :: (Ck.reqJar (optS v)).map fun nv => toHex nv.1 ++ "=" ++ ",".intercalate (nv.2.map toHex))
  | ["cvals", v, n] => (match Ck.getCookieValues (optS v) (fromHex n) with | none => "none" | some vs => " ".intercalate ("vals" :: vs.map toHex))
  | ["cunquote", v] => toHex (Ck.cUnquote (fromHex v))
  | _ => "bad-op"
partial def loop (h : IO.FS.Stream) : IO Unit := do
  let line ← h.getLine
  if line.isEmpty then return ()
  IO.println (step line)
  loop h
def main : IO Unit := do loop (← IO.getStdin)

import FalconModel.FinalizeRaise
/-! fxdriver — line protocol over `Fx` (FinalizeRaise.lean): the response a raise leaves behind, finalized on both stacks.

  One case per line, `key=value` words.  Strings are hex of code points < 256 (`-` = empty, `none` = None / absent).
    status= hdr=<hexk:hexv;...|.> text= data= media= (stale, bytes hex|none) stream=<f|i>:<hex,hex,..|.>|none fail=<n|none>
    sse=<hex,hex|.|none> cookies=<hex;hex|.> head=0|1 dflt=<hex|none>
    kind=E|S rstatus=<n> rhdr=<hexk:hexv,...|-|none> rtext=<hex|-|none> xml=0|1 handlers=<hexk:0|1,...|-> accept=<hex|none>
    json= xmlb= mediab= (bytes hex)
  Answer: `W <out> A <out>` with <out> = status|hexk:hexv;...|hexchunk,hexchunk|iterErr or `none`. -/
open Fz

def hexD (n : Nat) : Char := if n < 10 then Char.ofNat (48+n) else Char.ofNat (87+n)
def toHex (bs : Bytes) : String := if bs.isEmpty then "-" else String.ofList (bs.flatMap fun b => [hexD (b.toNat/16), hexD (b.toNat%16)])
def hv (c : Char) : Nat := if c.isDigit then c.toNat - 48 else c.toNat - 87
def fromHex (s : String) : Bytes :=
  let rec go : List Char → Bytes
    | a :: b :: r => (hv a * 16 + hv b).toUInt8 :: go r
    | _ => []
  if s == "-" then [] else go s.toList
def unhexL (s : String) : List Char := (fromHex s).map fun b => Char.ofNat b.toNat
def strOfHex (s : String) : String := String.ofList (unhexL s)
def hexOfStr (s : String) : String := toHex (s.toList.map fun c => c.toNat.toUInt8)

def kv (ws : List String) (k : String) : String :=
  match ws.find? (·.startsWith (k ++ "=")) with
  | some s => (s.drop (k.length + 1)).toString
  | none => ""
def splitNE (s : String) (sep : String) : List String := if s.isEmpty || s == "." then [] else s.splitOn sep
def optB (s : String) : Option Bytes := if s == "none" then none else some (fromHex s)
def optS (s : String) : Option String := if s == "none" then none else some (strOfHex s)
def optL (s : String) : Option (List Char) := if s == "none" then none else some (unhexL s)

def parseHandlers (s : String) : List (Es.Str × Bool) :=
  if s == "-" then [] else
  (s.splitOn ",").filterMap fun it => match it.splitOn ":" with
    | [k, v] => some (unhexL k, v == "1")
    | _ => none

def parseHdrs (s : String) : Option (List (Es.Str × Es.Str)) :=
  if s == "none" then none else if s == "-" then some [] else
  some ((s.splitOn ",").filterMap fun it => match it.splitOn ":" with
    | [k, v] => some (unhexL k, unhexL v)
    | _ => none)

/-- `str.encode()` for code points < 256 -/
def utf8 (s : List Char) : Bytes :=
  s.flatMap fun c => if c.toNat < 128 then [c.toNat.toUInt8] else [(192 + c.toNat / 64).toUInt8, (128 + c.toNat % 64).toUInt8]

def showOut : Option Out → String
  | none => "none"
  | some o => s!"{o.status}|{";".intercalate (o.headers.map fun (k, v) => hexOfStr k ++ ":" ++ hexOfStr v)}|{",".intercalate (o.body.map toHex)}|{if o.iterErr then 1 else 0}"

/-- the SSE branch is never taken after a raise (`Fx.asgiR_eq`); if it were, the answer would be recognisably wrong -/
def sseTail : List Bytes → Fz.Resp → Cfg → Out := fun evs _ _ => { status := 0, headers := [], body := evs, iterErr := false }

def runCase (ws : List String) : String :=
  let stream : Option (StreamKind × List Bytes) :=
    match (kv ws "stream").splitOn ":" with
    | ["f", cs] => some (.fileLike, (splitNE cs ",").map fromHex)
    | ["i", cs] => some (.iter, (splitNE cs ",").map fromHex)
    | _ => none
  let p : Fx.Pre := {
    status := (kv ws "status").toNat!, text := optB (kv ws "text"), data := optB (kv ws "data"),
    media := optB (kv ws "media"), stream := stream, streamFail := (kv ws "fail").toNat?,
    sse := if kv ws "sse" == "none" then none else some ((splitNE (kv ws "sse") ",").map fromHex),
    headers := (splitNE (kv ws "hdr") ";").filterMap (fun s => match s.splitOn ":" with
      | [k, v] => some (unhexL k, unhexL v) | _ => none),
    cookies := (splitNE (kv ws "cookies") ";").map strOfHex }
  let c : Cfg := { head := kv ws "head" == "1", appDefaultType := optS (kv ws "dflt"),
                   respDefaultType := optS (kv ws "dflt"), fileWrapper := false }
  let x : Fx.Raise :=
    if kv ws "kind" == "E" then
      .error { status := (kv ws "rstatus").toNat!, title := [], description := none, headers := parseHdrs (kv ws "rhdr"),
               link := none, code := none }
    else .status { status := (kv ws "rstatus").toNat!, headers := parseHdrs (kv ws "rhdr"), text := optL (kv ws "rtext") }
  let o : Es.Opts := { xml := kv ws "xml" == "1", handlers := parseHandlers (kv ws "handlers") }
  let enc : Fx.Enc := { json := fromHex (kv ws "json"), xml := fromHex (kv ws "xmlb"), media := fromHex (kv ws "mediab"), utf8 := utf8 }
  let a := optL (kv ws "accept")
  s!"W {showOut (Fx.wsgiR o a enc p x c)} A {showOut (Fx.asgiR sseTail o a enc p x c)}"

partial def loop (h : IO.FS.Stream) : IO Unit := do
  let line ← h.getLine
  if line.isEmpty then return ()
  IO.println (runCase (line.trimAscii.toString.splitOn " "))
  loop h
def main : IO Unit := do loop (← IO.getStdin)

import FalconModel.FinalizeWsgi
import FalconModel.FinalizeErr
import FalconModel.FinalizeSse
import FalconModel.FinalizeHist
/-! line-protocol driver for the C05 extension models: `wsgi` (Wg.call + Wg.serve), `rerr` (Fe.wsgiE / Fe.asgiE),
    `ser` (Sse.serialize), `sse` (Sse.sseTrace), `hist` (Fh.run + Fh.wsgiH / Fh.asgiH).  The fields of a response state are those of fzdriver. -/
open Fz

def hexD (n : Nat) : Char := if n < 10 then Char.ofNat (48+n) else Char.ofNat (87+n)
def toHex (bs : Bytes) : String := if bs.isEmpty then "-" else String.ofList (bs.flatMap fun b => [hexD (b.toNat/16), hexD (b.toNat%16)])
def hv (c : Char) : Nat := if c.isDigit then c.toNat - 48 else c.toNat - 87
def fromHex (s : String) : Bytes :=
  let rec go : List Char → Bytes
    | a :: b :: r => (hv a * 16 + hv b).toUInt8 :: go r
    | _ => []
  if s == "-" then [] else go s.toList
def strOfHex (s : String) : String := String.ofList ((fromHex s).map fun b => Char.ofNat b.toNat)
def hexOfStr (s : String) : String := toHex (s.toList.map fun c => c.toNat.toUInt8)

def kv (ws : List String) (k : String) : String :=
  match ws.find? (·.startsWith (k ++ "=")) with
  | some s => (s.drop (k.length + 1)).toString
  | none => ""
def splitNE (s : String) (sep : String) : List String := if s.isEmpty || s == "." then [] else s.splitOn sep
def optB (s : String) : Option Bytes := if s == "none" || s == "" then none else some (fromHex s)
def optS (s : String) : Option String := if s == "none" then none else some (strOfHex s)

def showHdrs (h : List (String × String)) : String :=
  ";".intercalate (h.map fun (k, v) => hexOfStr k ++ ":" ++ hexOfStr v)
def showOut (o : Out) : String :=
  s!"{o.status}|{showHdrs o.headers}|{",".intercalate (o.body.map toHex)}|{if o.iterErr then 1 else 0}"
def showEv : Ev → String
  | .start s h => s!"S:{s}:{showHdrs h}"
  | .body d m => s!"B:{toHex d}:{if m then "t" else "f"}"
def showTrace (t : Trace) : String :=
  s!"{",".intercalate (t.events.map showEv)}|{t.closes}|{if t.raised then 1 else 0}"

def parseStream (s : String) : Option (StreamKind × List Bytes) :=
  match s.splitOn ":" with
  | ["f", cs] => some (.fileLike, (splitNE cs ",").map fromHex)
  | ["i", cs] => some (.iter, (splitNE cs ",").map fromHex)
  | _ => none
def parseHdrs (s : String) : List (String × String) :=
  (splitNE s ";").filterMap (fun s => match s.splitOn ":" with
    | [k, v] => some (strOfHex k, strOfHex v) | _ => none)

/-- the response state of a line; `sfx` = "" or "2" -/
def parseResp (ws : List String) (sfx : String) : Resp := {
  status := (kv ws ("status" ++ sfx)).toNat!, text := optB (kv ws ("text" ++ sfx)), data := optB (kv ws ("data" ++ sfx)),
  media := optB (kv ws ("media" ++ sfx)), stream := parseStream (kv ws ("stream" ++ sfx)),
  streamFail := (kv ws ("fail" ++ sfx)).toNat?,
  headers := parseHdrs (kv ws ("hdr" ++ sfx)), cookies := (splitNE (kv ws ("cookies" ++ sfx)) ";").map strOfHex }
def parseCfg (ws : List String) : Cfg :=
  { head := kv ws "head" == "1", appDefaultType := optS (kv ws "dflt"),
    respDefaultType := optS (kv ws "dflt"), fileWrapper := kv ws "fw" == "1" }

/-! `wsgi …  close=0|1 sv=e:<code>:<hex phrase>|l:<hex line>|c:<n> tbl=none|<hex> wc=0|1 ab=-|<k>` -/
def runWsgi (ws : List String) : String :=
  let r := parseResp ws ""
  let c := parseCfg ws
  let s : Option Wg.Stream := r.stream.map fun (k, ch) =>
    { kind := k, chunks := ch, fail := r.streamFail, hasClose := kv ws "close" == "1" }
  let sv : Wg.StatusVal :=
    match (kv ws "sv").splitOn ":" with
    | ["e", n, p] => .enum n.toNat! (strOfHex p)
    | ["l", l] => .line (strOfHex l)
    | ["c", n] => .code n.toNat!
    | _ => .code 0
  let key : Nat := match sv with | .code n => n | _ => 0
  let entry := optS (kv ws "tbl")
  let table : Nat → Option String := fun n => if n == key then entry else none
  let cl := Wg.call { r with stream := none, streamFail := none } sv table s c
  match cl.iterable with
  | none => s!"{cl.starts.length}|raised|{cl.fwCalls}"
  | some it =>
    let sv := Wg.serve it (kv ws "wc" == "1") (kv ws "ab").toNat?
    let st := match cl.starts with
      | [(line, hs)] => s!"{hexOfStr line}|{showHdrs hs}"
      | _ => "?|?"
    s!"{cl.starts.length}|{st}|{",".intercalate (sv.chunks.map toHex)}|{if sv.iterErr then 1 else 0}|{sv.closes}|{if sv.iterableHasClose then 1 else 0}|{cl.fwCalls}"

/-! `rerr …  mr=0|1 h=0|1 status2= text2= data2= media2= stream2= fail2= hdr2= cookies2= mr2=`
    the handler: raises (h=0), or leaves what the second group says on the response it was given -/
def runRerr (ws : List String) : String :=
  let r := parseResp ws ""
  let c := parseCfg ws
  let r2 := parseResp ws "2"
  let handler : Fe.Handler := fun r0 =>
    if kv ws "h" == "1" then
      some ({ status := r2.status, text := r2.text.orElse fun _ => r0.text, data := r2.data.orElse fun _ => r0.data,
              media := r2.media.orElse fun _ => r0.media,
              stream := r2.stream.orElse fun _ => r0.stream,
              streamFail := if r2.stream.isSome then r2.streamFail else r0.streamFail,
              headers := r2.headers, cookies := r2.cookies }, kv ws "mr2" == "1")
    else none
  let sh : Option Out → String := fun o => match o with | some o => showOut o | none => "raised"
  s!"W {sh (Fe.wsgiE r (kv ws "mr" == "1") handler c)} A {sh (Fe.asgiE r (kv ws "mr" == "1") handler c)}"

/-! an SSE event: `N` (None), `E` (SSEvent()), or `d:<hex>,t:<hex>,j:raises|<hex>,e:<hex>,i:<hex>,r:<int>,c:<hex>` -/
def parseEvent (s : String) : Option Sse.SSEvent :=
  if s == "N" then none else
  let fs := if s == "E" then [] else s.splitOn ","
  let get : String → Option String := fun k =>
    (fs.find? (·.startsWith (k ++ ":"))).map fun f => (f.drop 2).toString
  some { data := (get "d").map fromHex, text := (get "t").map fromHex,
         json := (get "j").map (fun v => if v == "raises" then Sse.JsonR.raises else .ok (fromHex v)),
         event := (get "e").map fromHex, eventId := (get "i").map fromHex,
         retry := (get "r").bind String.toInt?, comment := (get "c").map fromHex }

def runSer (ws : List String) : String :=
  match parseEvent (kv ws "ev") with
  | none => "?"
  | some e => match Sse.serialize e with | some b => toHex b | none => "raises"

def runSse (ws : List String) : String :=
  let r := parseResp ws ""
  let c := parseCfg ws
  let evs := (splitNE (kv ws "evs") ";").map parseEvent
  showTrace (Sse.sseTrace r c (kv ws "close" == "1") evs (kv ws "ef").toNat? (kv ws "disc").toNat? (kv ws "xf").toNat?)

/-! `hist status= head= stream= fail= cookies= dflt= fw= ops=<op>;<op>;…` on a fresh response; an op is `T:<hex|none>`,
    `D:<hex|none>`, `M:<hex|none>` (assignments), `R:<0|1>` (render_body(); 1 = serialising the media then assigned
    raises), `H:<hex name>:<hex value>` (header dict assignment).  Reply: what every render_body() call returned, then
    the finalization on both stacks. -/
def parseOp (s : String) : Option Fh.Op :=
  match s.splitOn ":" with
  | ["T", v] => some (.setText (optB v))
  | ["D", v] => some (.setData (optB v))
  | ["M", v] => some (.setMedia (optB v))
  | ["R", f] => some (.render (f == "1"))
  | ["H", k, v] => some (.setHeader (strOfHex k) (strOfHex v))
  | _ => none

def runHist (ws : List String) : String :=
  let c := parseCfg ws
  let r0 : Resp := { status := (kv ws "status").toNat!, text := none, data := none, media := none,
                     stream := parseStream (kv ws "stream"), streamFail := (kv ws "fail").toNat?,
                     headers := [], cookies := (splitNE (kv ws "cookies") ";").map strOfHex }
  let ops := (splitNE (kv ws "ops") ";").filterMap parseOp
  let s0 : Fh.St := { r := r0, cache := none }
  let outs := (Fh.outputs c s0 ops).map fun o => match o with
    | none => "raises" | some none => "none" | some (some b) => toHex b
  let s := Fh.run c s0 ops
  let sh : Option Out → String := fun o => match o with | some o => showOut o | none => "raised"
  s!"R {if outs.isEmpty then "." else ",".intercalate outs} W {sh (Fh.wsgiH c s false)} A {sh (Fh.asgiH c s false)}"

def runCase (ws : List String) : String :=
  match ws with
  | "hist" :: rest => runHist rest
  | "wsgi" :: rest => runWsgi rest
  | "rerr" :: rest => runRerr rest
  | "ser" :: rest => runSer rest
  | "sse" :: rest => runSse rest
  | _ => "?"

partial def loop (h : IO.FS.Stream) : IO Unit := do
  let line ← h.getLine
  if line.isEmpty then return ()
  IO.println (runCase (line.trimAscii.toString.splitOn " "))
  loop h
def main : IO Unit := do loop (← IO.getStdin)

import FalconModel.Finalize
import FalconModel.FinalizeReader
open Fz

def hexD (n : Nat) : Char := if n < 10 then Char.ofNat (48+n) else Char.ofNat (87+n)
def toHex (bs : Bytes) : String := if bs.isEmpty then "-" else String.ofList (bs.flatMap fun b => [hexD (b.toNat/16), hexD (b.toNat%16)])
def hv (c : Char) : Nat := if c.isDigit then c.toNat - 48 else c.toNat - 87
def fromHex (s : String) : Bytes :=
  let rec go : List Char → Bytes
    | a :: b :: r => (hv a * 16 + hv b).toUInt8 :: go r
    | _ => []
  if s == "-" then [] else go s.toList
def strOfHex (s : String) : String := String.ofList ((fromHex s).map fun b => Char.ofNat b.toNat)
def hexOfStr (s : String) : String := toHex (s.toList.map fun c => c.toNat.toUInt8)

def kv (ws : List String) (k : String) : String :=
  match ws.find? (·.startsWith (k ++ "=")) with
  | some s => (s.drop (k.length + 1)).toString
  | none => ""
def splitNE (s : String) (sep : String) : List String := if s.isEmpty || s == "." then [] else s.splitOn sep
def optB (s : String) : Option Bytes := if s == "none" then none else some (fromHex s)
def optS (s : String) : Option String := if s == "none" then none else some (strOfHex s)

def showOut (o : Out) : String :=
  s!"{o.status}|{";".intercalate (o.headers.map fun (k, v) => hexOfStr k ++ ":" ++ hexOfStr v)}|{",".intercalate (o.body.map toHex)}|{if o.iterErr then 1 else 0}"

def runCase (ws : List String) : String :=
  let stream : Option (StreamKind × List Bytes) :=
    match (kv ws "stream").splitOn ":" with
    | ["f", cs] => some (.fileLike, (splitNE cs ",").map fromHex)
    | ["i", cs] => some (.iter, (splitNE cs ",").map fromHex)
    -- a file-like object given by its read contract (Fr, FinalizeReader.lean): r:<size>:<cap.cap.…|->:<tail>
    | ["r", size, caps, tail] =>
      some (.fileLike, Fr.blocks (Fr.content size.toNat!) ((if caps == "-" then [] else caps.splitOn ".").map String.toNat!) tail.toNat!)
    | _ => none
  let r : Resp := {
    status := (kv ws "status").toNat!, text := optB (kv ws "text"), data := optB (kv ws "data"),
    media := optB (kv ws "media"), stream := stream, streamFail := (kv ws "fail").toNat?,
    headers := (splitNE (kv ws "hdr") ";").filterMap (fun s => match s.splitOn ":" with
      | [k, v] => some (strOfHex k, strOfHex v) | _ => none),
    cookies := (splitNE (kv ws "cookies") ";").map strOfHex }
  let c : Cfg := { head := kv ws "head" == "1", appDefaultType := optS (kv ws "dflt"),
                   respDefaultType := optS (kv ws "dflt"), fileWrapper := kv ws "fw" == "1" }
  s!"W {showOut (wsgi r c)} A {showOut (asgi r c)}"

partial def loop (h : IO.FS.Stream) : IO Unit := do
  let line ← h.getLine
  if line.isEmpty then return ()
  IO.println (runCase (line.trimAscii.toString.splitOn " "))
  loop h
def main : IO Unit := do loop (← IO.getStdin)

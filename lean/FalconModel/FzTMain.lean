import FalconModel.FinalizeClose
open Fz

def hexD (n : Nat) : Char := if n < 10 then Char.ofNat (48+n) else Char.ofNat (87+n)
def toHex (bs : Bytes) : String := if bs.isEmpty then "-" else String.ofList (bs.flatMap fun b => [hexD (b.toNat/16), hexD (b.toNat%16)])
def hv (c : Char) : Nat := if c.isDigit then c.toNat - 48 else c.toNat - 87
def fromHex (s : String) : Bytes :=
  let rec go : List Char → Bytes
    | a :: b :: r => (hv a * 16 + hv b).toUInt8 :: go r
    | _ => []
  if s == "-" then [] else go s.toList
def strOfHex (s : String) : String := String.ofList ((fromHex s).map fun b => Char.ofNat b.toNat)
def hexOfStr (s : String) : String := toHex (s.toList.map fun c => c.toNat.toUInt8)

def kv (ws : List String) (k : String) : String :=
  match ws.find? (·.startsWith (k ++ "=")) with
  | some s => (s.drop (k.length + 1)).toString
  | none => ""
def splitNE (s : String) (sep : String) : List String := if s.isEmpty || s == "." then [] else s.splitOn sep
def optB (s : String) : Option Bytes := if s == "none" then none else some (fromHex s)
def optS (s : String) : Option String := if s == "none" then none else some (strOfHex s)

def showHdrs (h : List (String × String)) : String :=
  ";".intercalate (h.map fun (k, v) => hexOfStr k ++ ":" ++ hexOfStr v)

def showEv : Ev → String
  | .start s h => s!"S:{s}:{showHdrs h}"
  | .body d m => s!"B:{toHex d}:{if m then "t" else "f"}"

def showTrace (t : Trace) : String :=
  s!"{",".intercalate (t.events.map showEv)}|{t.closes}|{if t.raised then 1 else 0}"

/-- what the stream hands out call by call: hex = a byte string, `N` = None -/
def parseItems (cs : String) : List Fn.Item := (splitNE cs ",").map fun t => if t == "N" then none else some (fromHex t)

def runCase (ws : List String) : String :=
  let (stream, items) : Option (StreamKind × List Bytes) × List Fn.Item :=
    match (kv ws "stream").splitOn ":" with
    | ["f", cs] => (some (.fileLike, (parseItems cs).filterMap id), parseItems cs)
    | ["i", cs] => (some (.iter, Fn.cutNone (parseItems cs)), parseItems cs)
    | _ => (none, [])
  let r : Resp := {
    status := (kv ws "status").toNat!, text := optB (kv ws "text"), data := optB (kv ws "data"),
    media := optB (kv ws "media"), stream := stream, streamFail := (kv ws "fail").toNat?,
    headers := (splitNE (kv ws "hdr") ";").filterMap (fun s => match s.splitOn ":" with
      | [k, v] => some (strOfHex k, strOfHex v) | _ => none),
    cookies := (splitNE (kv ws "cookies") ";").map strOfHex }
  let c : Cfg := { head := kv ws "head" == "1", appDefaultType := optS (kv ws "dflt"),
                   respDefaultType := optS (kv ws "dflt"), fileWrapper := kv ws "fw" == "1" }
  -- cf=1: stream.close() itself raises when it is called (Fc.asgiTraceC; without the token this is Fn.asgiTraceN: Fc.asgiTraceC_nofault)
  showTrace (Fc.asgiTraceC r items c (kv ws "close" == "1") (kv ws "xf").toNat? (kv ws "cf" == "1"))

partial def loop (h : IO.FS.Stream) : IO Unit := do
  let line ← h.getLine
  if line.isEmpty then return ()
  IO.println (runCase (line.trimAscii.toString.splitOn " "))
  loop h
def main : IO Unit := do loop (← IO.getStdin)

import FalconModel.RespHeaders
open Hd

/-! Line-protocol driver for the response-header model (C15). All names / values / cookie lines are hex (latin-1 bytes),
    `-` is the empty string.
      new | set N V | append N V | delete N | get N | setmany N:V,N:V,… (or -) | pset K V | pdel K | cookie NAME LINE | uncookie NAME LINE | emit | headers -/
def cfg : Cfg String String := { norm := fun s => s.map Char.toLower, cookie := "set-cookie" }

def hexVal (c : Char) : Nat :=
  if '0' ≤ c ∧ c ≤ '9' then c.toNat - 48 else if 'a' ≤ c ∧ c ≤ 'f' then c.toNat - 87 else if 'A' ≤ c ∧ c ≤ 'F' then c.toNat - 55 else 0
def unhexL : List Char → List Char
  | a :: b :: rest => Char.ofNat (hexVal a * 16 + hexVal b) :: unhexL rest
  | _ => []
def unhex (s : String) : String := if s == "-" then "" else String.ofList (unhexL s.toList)
def hexDigit (n : Nat) : Char := if n < 10 then Char.ofNat (48 + n) else Char.ofNat (87 + n)
def hex (s : String) : String :=
  if s.isEmpty then "-" else String.ofList (s.toList.flatMap fun c => [hexDigit (c.toNat / 16 % 16), hexDigit (c.toNat % 16)])

def showKV (l : List (String × String)) : String := ";".intercalate (l.map fun (k, v) => hex k ++ "=" ++ hex v)

def step (r : Resp String) (line : String) : Resp String × String :=
  match line.trimAscii.toString.splitOn " " with
  | ["new"] => ({}, "ok")
  | ["set", n, v] => match setHeader cfg r (unhex n) (unhex v) with | some r' => (r', "ok") | none => (r, "err")
  | ["append", n, v] => (appendHeader cfg r (unhex n) (unhex v), "ok")
  | ["delete", n] => match deleteHeader cfg r (unhex n) with | some r' => (r', "ok") | none => (r, "err")
  | ["get", n] => match getHeader cfg r (unhex n) with | some (some v) => (r, "val " ++ hex v) | some none => (r, "none") | none => (r, "err")
  | ["setmany", items] =>
    let kvs := if items == "-" then [] else (items.splitOn ",").filterMap fun it => match it.splitOn ":" with | [k, v] => some (unhex k, unhex v) | _ => none
    let (r', ok) := setHeaders cfg r kvs
    (r', if ok then "ok" else "err")
  | ["pset", k, v] => (applyOp cfg r (.propSet (unhex k) (unhex v)), "ok")
  | ["pdel", k] =>
    -- `del resp.<prop>` raises KeyError when the header is absent; assigning None never raises (the harness sends pdel only for the latter or a present header)
    (applyOp cfg r (.propDel (unhex k)), "ok")
  | ["cookie", n, l] => (setCookie r (unhex n) (unhex l), "ok")
  | ["uncookie", n, l] => (unsetCookie r (unhex n) (unhex l), "ok")
  | ["emit"] => (r, "hdrs " ++ showKV (emitAll cfg r))
  | ["headers"] => (r, "hdrs " ++ showKV (headersCopy r))      -- the `resp.headers` property (a copy of the dict, in dict order)
  | _ => (r, "bad-op")

partial def loop (h : IO.FS.Stream) (r : Resp String) : IO Unit := do
  let line ← h.getLine
  if line.isEmpty then return ()
  let (r', out) := step r line
  IO.println out
  loop h r'
def main : IO Unit := do loop (← IO.getStdin) {}

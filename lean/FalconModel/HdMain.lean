import FalconModel.RespHeaders
open Hd

def cfg : Cfg String String := { norm := fun s => s.map Char.toLower, cookie := "set-cookie" }
def showKV (l : List (String × String)) : String := ";".intercalate (l.map fun (k, v) => k ++ "=" ++ v)

def step (r : Resp String) (line : String) : Resp String × String :=
  match line.trimAscii.toString.splitOn " " with
  | ["new"] => ({}, "ok")
  | ["set", n, v] => match setHeader cfg r n v with | some r' => (r', "ok") | none => (r, "err")
  | ["append", n, v] => (appendHeader cfg r n v, "ok")
  | ["delete", n] => match deleteHeader cfg r n with | some r' => (r', "ok") | none => (r, "err")
  | ["get", n] => match getHeader cfg r n with | some (some v) => (r, "val " ++ v) | some none => (r, "none") | none => (r, "err")
  | ["setmany", items] =>
    let kvs := (items.splitOn ",").filterMap fun it => match it.splitOn ":" with | [k, v] => some (k, v) | _ => none
    let (r', ok) := setHeaders cfg r kvs
    (r', if ok then "ok" else "err")
  | ["emit"] => (r, "hdrs " ++ showKV (emit r))
  | _ => (r, "bad-op")

partial def loop (h : IO.FS.Stream) (r : Resp String) : IO Unit := do
  let line ← h.getLine
  if line.isEmpty then return ()
  let (r', out) := step r line
  IO.println out
  loop h r'
def main : IO Unit := do loop (← IO.getStdin) {}

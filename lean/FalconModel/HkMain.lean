import FalconModel.HooksLifespan
open Hk
/-! Line protocol for C03 (hooks and lifespan):
    `wrap <r|x> <b|a><r|x> ...`   decorators outermost first  -> `bef:0 responder aft:1 ...`
    `lifespan <s><h> ...`         per component startup/shutdown in {-, r, x} -> `startup:0 ... shutdown:1 | lifespan.startup.complete ...` -/
def act (c : Char) : Act := if c == 'x' then .raise_ else .ret
def oact (c : Char) : Option Act := if c == '-' then none else some (act c)
def showH : HCall → String
  | .before k => s!"bef:{k}" | .after k => s!"aft:{k}" | .responder => "responder"
def showL : LCall → String
  | .startup i => s!"startup:{i}" | .shutdown i => s!"shutdown:{i}"
def showE : LEvent → String
  | .startupComplete => "lifespan.startup.complete" | .startupFailed => "lifespan.startup.failed"
  | .shutdownComplete => "lifespan.shutdown.complete" | .shutdownFailed => "lifespan.shutdown.failed"
def step (line : String) : String :=
  match (line.trimAscii.toString.splitOn " ").filter (· != "") with
  | "wrap" :: r :: ds =>
    let decos : List Deco := (List.range ds.length).zip ds |>.map fun (k, d) =>
      match d.toList with
      | ['b', a] => Deco.before k (act a)
      | [_, a] => Deco.after k (act a)
      | _ => Deco.after k .ret
    " ".intercalate ((wrap decos (act (r.toList.headD 'r'))).1.map showH)
  | "lifespan" :: cs =>
    let comps : List (Nat × LComp) := (List.range cs.length).zip cs |>.map fun (i, c) =>
      match c.toList with
      | [s, h] => (i, { startup := oact s, shutdown := oact h })
      | _ => (i, { startup := none, shutdown := none })
    let (calls, evs) := lifespan comps
    " ".intercalate (calls.map showL) ++ " | " ++ " ".intercalate (evs.map showE)
  | _ => "bad-op"
partial def loop (h : IO.FS.Stream) : IO Unit := do
  let line ← h.getLine
  if line.isEmpty then return ()
  IO.println (step line)
  loop h
def main : IO Unit := do loop (← IO.getStdin)

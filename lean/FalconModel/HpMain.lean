import FalconModel.HeaderParsers
open Hp
def hexD (n : Nat) : Char := if n < 10 then Char.ofNat (48+n) else Char.ofNat (87+n)
def toHex (s : Str) : String := if s.isEmpty then "-" else String.ofList (s.flatMap fun c => [hexD (c.toNat/16), hexD (c.toNat%16)])
def hv (c : Char) : Nat := if c.isDigit then c.toNat - 48 else c.toNat - 87
def fromHex (s : String) : Str :=
  let rec go : List Char → Str
    | a :: b :: r => Char.ofNat (hv a * 16 + hv b) :: go r
    | _ => []
  if s == "-" then [] else go s.toList
def optS (s : String) : Option Str := if s == "none" then none else some (fromHex s)
def optI (s : String) : Option Int := if s == "none" then none else s.toInt?
def showOI : Option Int → String | none => "none" | some n => toString n
def showTag (t : ETag) : String := (if t.weak then "W:" else "S:") ++ toHex t.value
def step (line : String) : String :=
  match line.trimAscii.toString.splitOn " " with
  | ["cl", v] => (match contentLength (optS v) with | .absent => "absent" | .ok n => s!"ok {n}" | .bad => "bad")
  | ["clb", v] => (match contentLengthB (optS v) with | .absent => "absent" | .ok n => s!"ok {n}" | .bad => "bad")
  | ["range", v] => (match range (optS v) with | .absent => "absent" | .ok a b => s!"ok {a} {b}" | .bad => "bad")
  | ["unit", v] => (match rangeUnit (optS v) with | .absent => "absent" | .ok u => s!"ok {toHex u}" | .bad => "bad")
  | ["host", v, sn] => (match reqHost (optS v) (fromHex sn) with | .ok h => s!"ok {toHex h}" | .bad400 => "bad")
  | ["port", v, https, sp] => (match reqPort (optS v) (https == "1") sp.toInt! with | .ok p => s!"ok {showOI p}" | .bad400 => "bad")
  | ["phost", v, d] => (match parseHost (fromHex v) (optI d) with | .ok h p => s!"ok {toHex h} {showOI p}" | .valueError => "valueError")
  | ["int", v] => (match pyInt (fromHex v) with | some n => s!"ok {n}" | none => "valueError")
  | ["etags", v] => (match parseEtags (fromHex v) with | .none => "none" | .star => "star" | .tags ts => "tags " ++ ",".intercalate (ts.map showTag))
  | ["loads", v] => showTag (ETag.loads (fromHex v))
  | ["dumps", w, v] => toHex (ETag.dumps ⟨fromHex v, w == "W"⟩)
  | _ => "bad-op"
partial def loop (h : IO.FS.Stream) : IO Unit := do
  let line ← h.getLine
  if line.isEmpty then return ()
  IO.println (step line)
  loop h
def main : IO Unit := do loop (← IO.getStdin)

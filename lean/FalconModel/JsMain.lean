import FalconModel.JsonHandler
/-! line protocol:  `dumps <doc>` -> hex of the UTF-8 bytes;  `loads <hex>` -> `some <doc>` | `none`;
    `des <hex>` (JSONHandler._deserialize) -> `ok <doc>` | `nf` (MediaNotFoundError) | `mal` (MediaMalformedError) | `oth`
    doc encoding (prefix, space separated): n | t | f | i<decimal> | s<hex of utf-8 or -> | a<count> doc* | o<count> (k<hex or -> doc)* -/
open Js

def hexDigitVal (c : Char) : Option Nat :=
  if c.isDigit then some (c.toNat - 48) else if 'a' ≤ c ∧ c ≤ 'f' then some (c.toNat - 87) else none

def unhex (s : String) : Option ByteArray :=
  if s == "-" then some ByteArray.empty else
  let rec go : List Char → ByteArray → Option ByteArray
    | [], acc => some acc
    | a :: b :: r, acc => match hexDigitVal a, hexDigitVal b with
      | some x, some y => go r (acc.push (UInt8.ofNat (x * 16 + y)))
      | _, _ => none
    | _, _ => none
  go s.toList ByteArray.empty

def hexOf (b : ByteArray) : String :=
  if b.size == 0 then "-" else
  String.ofList (b.toList.flatMap fun x => [Nat.digitChar (x.toNat / 16), Nat.digitChar (x.toNat % 16)])

def strOfHex (h : String) : Option Str := do
  let b ← unhex h
  let s ← String.fromUTF8? b
  pure s.toList

def hexOfStr (s : Str) : String := hexOf (String.ofList s).toUTF8

partial def decDoc : List String → Option (Doc × List String)
  | [] => none
  | t :: r =>
    if t == "n" then some (.null, r)
    else if t == "t" then some (.bool true, r)
    else if t == "f" then some (.bool false, r)
    else match t.toList with
      | 'i' :: ds => (String.ofList ds).toInt?.map fun i => (.int i, r)
      | 's' :: h => (strOfHex (String.ofList h)).map fun s => (.str s, r)
      | 'a' :: n => do
        let n ← (String.ofList n).toNat?
        let rec elems : Nat → List String → List Doc → Option (List Doc × List String)
          | 0, r, acc => some (acc.reverse, r)
          | k + 1, r, acc => do let (d, r') ← decDoc r; elems k r' (d :: acc)
        let (xs, r') ← elems n r []
        pure (.arr xs, r')
      | 'o' :: n => do
        let n ← (String.ofList n).toNat?
        let rec pairs : Nat → List String → List (Str × Doc) → Option (List (Str × Doc) × List String)
          | 0, r, acc => some (acc.reverse, r)
          | k + 1, kt :: r, acc => do
            let key ← match kt.toList with | 'k' :: h => strOfHex (String.ofList h) | _ => none
            let (d, r') ← decDoc r
            pairs k r' ((key, d) :: acc)
          | _, [], _ => none
        let (ps, r') ← pairs n r []
        pure (.obj ps, r')
      | _ => none

partial def encDoc : Doc → String
  | .null => "n"
  | .bool true => "t"
  | .bool false => "f"
  | .int i => s!"i{i}"
  | .str s => "s" ++ hexOfStr s
  | .arr xs => xs.foldl (fun acc x => acc ++ " " ++ encDoc x) s!"a{xs.length}"
  | .obj ps => ps.foldl (fun acc p => acc ++ " k" ++ hexOfStr p.1 ++ " " ++ encDoc p.2) s!"o{ps.length}"

def step (line : String) : String :=
  match (line.trimAscii.toString.splitOn " ").filter (· ≠ "") with
  | "dumps" :: toks =>
    match decDoc toks with
    | some (d, []) => hexOf (dumpsBytes d)
    | _ => "bad-doc"
  | ["loads", h] =>
    match unhex h with
    | some b => (match loadsBytes b with | some d => "some " ++ encDoc d | none => "none")
    | none => "bad-hex"
  | ["des", h] =>
    match unhex h with
    | some b => (match handlerDes b with
      | .ok d => "ok " ++ encDoc d
      | .err .notFound => "nf"
      | .err .malformed => "mal"
      | .err (.other _) => "oth")
    | none => "bad-hex"
  | _ => "bad-op"

partial def loop (h : IO.FS.Stream) : IO Unit := do
  let line ← h.getLine
  if line.isEmpty then return ()
  IO.println (step line)
  loop h
def main : IO Unit := do loop (← IO.getStdin)

import FalconModel.MultipartAsync
open Rd (Bytes Res)
open Mp (Form Err dashes)
open Ma

/-! line-protocol driver for the model of falcon/asgi/multipart.py (`Ma.next Ma.arOps`, `Ma.getData`) over the
    transcription of falcon/asgi/reader.py (`Ma.AR`), the part stream being the nested reader `AR (DelimGen Raw)`.

      manew <chunk> <pieces: hex,hex,… | _> <boundary hex> <max_headers_size> <max_count> <max_buffer_size>   -> ok
      next                         -> part <headers> … | end … | err <kind> … | stop
      p read <n|none> | p readall | p peek <n> | p ru <d> <n|none> <0|1> | p pu <d> <0|1> | p pipe | p exhaust | p iter
                                   -> ok <hex> … | unit … | err delim … | err value …
      p getdata                    -> ok <hex> … | err toolarge … | err …
    every reply after `manew` ends with ` tell=<part stream tell()> eof=<part stream eof> ptell=<parent tell()>`
    (`next`: only `ptell`). -/

def hexD (n : Nat) : Char := if n < 10 then Char.ofNat (48+n) else Char.ofNat (87+n)
def toHex (bs : Bytes) : String := String.ofList (bs.flatMap fun b => [hexD (b.toNat/16), hexD (b.toNat%16)])
def hv (c : Char) : Nat := if c.isDigit then c.toNat - 48 else c.toNat - 87
def fromHex (s : String) : Bytes :=
  let rec go : List Char → Bytes
    | a :: b :: r => (hv a * 16 + hv b).toUInt8 :: go r
    | _ => []
  if s == "-" then [] else go s.toList
def optInt (s : String) : Option Int := if s == "none" then none else s.toInt?

def showObs : AObs → String
  | .bytes b => "ok " ++ toHex b
  | .unit => "unit"
  | .delimErr => "err delim"
  | .valueErr => "err value"

def showErr : Err → String
  | .structure => "structure" | .incompleteHeaders => "headers" | .cte => "cte"
  | .tooManyParts => "count" | .value => "value"

def insertSorted (x : String) : List String → List String
  | [] => [x]
  | y :: ys => if x ≤ y then x :: y :: ys else y :: insertSorted x ys

def showHeaders (h : List (Bytes × Bytes)) : String :=
  let items := h.map fun (k, v) => toHex k ++ "=" ++ toHex v
  ";".intercalate (items.foldr insertSorted [])

abbrev Parent := AR Raw
abbrev Child := AR (DelimGen Raw)

inductive St where
  | none
  | idle (f : Form) (maxBuf : Int) (r : Parent)
  | inPart (f : Form) (maxBuf : Int) (p : BodyPart Child)

def ops : Ops Parent Child := arOps

def parseOp (ws : List String) : Option AOp :=
  match ws with
  | ["read", n] => some (.read (optInt n))
  | ["readall"] => some .readall
  | ["peek", n] => some (.peek n.toInt!)
  | ["ru", d, n, c] => some (.readUntil (fromHex d) (optInt n) (c == "1"))
  | ["pu", d, c] => some (.pipeUntil (fromHex d) (c == "1"))
  | ["pipe"] => some .pipe
  | ["exhaust"] => some .exhaust
  | ["iter"] => some .iterate
  | _ => Option.none

def stChild (c : Child) : String := s!" tell={tell c} eof={eof c} ptell={tell c.src.parent}"

def doNext (f : Form) (maxBuf : Int) (parent : Parent) : St × String :=
  if f.finished then (.idle f maxBuf parent, "stop") else
  match next ops f parent with
  | (f, .part h c) => (.inPart f maxBuf { stream := c, headers := h }, s!"part {showHeaders h} ptell={tell c.src.parent}")
  | (f, .done p) => (.idle f maxBuf p, s!"end ptell={tell p}")
  | (f, .err e p) => (.idle f maxBuf p, s!"err {showErr e} ptell={tell p}")

def step (s : St) (line : String) : St × String :=
  match line.trimAscii.toString.splitOn " " with
  | ["manew", chunk, pieces, boundary, maxhdr, maxcount, maxbuf] =>
    let items := if pieces == "_" then [] else (pieces.splitOn ",").map fromHex
    let r : Parent := { chunk := chunk.toInt!, src := ⟨items⟩ }
    (.idle { delim := dashes ++ fromHex boundary, remaining := maxcount.toInt!, maxHdr := maxhdr.toInt!,
             maxCount := maxcount.toInt! } maxbuf.toInt! r, "ok")
  | ["next"] =>
    match s with
    | .idle f mb r => doNext f mb r
    | .inPart f mb p => doNext f mb (ops.parentOf p.stream)
    | .none => (s, "bad-op")
  | ["p", "getdata"] =>
    match s with
    | .inPart f mb p =>
      match getData ops mb p with
      | (.ok b, p) => (.inPart f mb p, "ok " ++ toHex b ++ stChild p.stream)
      | (.tooLarge, p) => (.inPart f mb p, "err toolarge" ++ stChild p.stream)
      | (.raised e, p) => (.inPart f mb p, showObs e ++ stChild p.stream)
    | _ => (s, "bad-op")
  | "p" :: ws =>
    match s, parseOp ws with
    | .inPart f mb p, some op =>
      let (o, c) := ops.cstep p.stream op
      (.inPart f mb { p with stream := c }, showObs o ++ stChild c)
    | _, _ => (s, "bad-op")
  | _ => (s, "bad-op")

partial def loop (h : IO.FS.Stream) (s : St) : IO Unit := do
  let line ← h.getLine
  if line.isEmpty then return ()
  let (s', out) := step s line
  IO.println out
  loop h s'
def main : IO Unit := do loop (← IO.getStdin) .none

import FalconModel.Basic
open Probe

def hexOfByte (b : UInt8) : String :=
  let d (n : Nat) : Char := if n < 10 then Char.ofNat (48+n) else Char.ofNat (87+n)
  String.mk [d (b.toNat/16), d (b.toNat%16)]
def toHex (bs : List UInt8) : String := String.join (bs.map hexOfByte)
def fromHex (s : String) : List UInt8 :=
  let rec go : List Char → List UInt8
    | a :: b :: r => ((hexVal? a.toNat.toUInt8).getD 0 * 16 + (hexVal? b.toNat.toUInt8).getD 0).toUInt8 :: go r
    | _ => []
  go s.toList

def step (line : String) : String :=
  match line.trimAscii.toString.splitOn " " with
  | ["enc", h] => toHex (encode (fromHex h))
  | ["dec", h] => toHex (decode (fromHex h))
  | _ => "bad-op"

partial def loop (h : IO.FS.Stream) : IO Unit := do
  let line ← h.getLine
  if line.isEmpty then return ()
  IO.println (step line)
  loop h
def main : IO Unit := do loop (← IO.getStdin)

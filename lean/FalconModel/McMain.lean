import FalconModel.MediaCache
open Mc
structure D where
  h : Des Nat := .err .notFound
  ex : Bool := true
  s : St Nat := {}
  r : Resp Nat := {}
def parseDes (t : String) : Des Nat :=
  match t.splitOn ":" with
  | ["ok", n] => .ok n.toNat!
  | ["nf"] => .err .notFound
  | ["mal"] => .err .malformed
  | ["oth", k] => .err (.other k.toNat!)
  | _ => .err (.other 999)
def showErr : Err → String
  | .notFound => "nf" | .malformed => "mal" | .other k => s!"oth:{k}"
def showDes : Des Nat → String
  | .ok v => s!"ok:{v}" | .err e => showErr e
def step (d : D) (line : String) : D × String :=
  match line.trimAscii.toString.splitOn " " with
  | ["new", des, ex] => ({ h := parseDes des, ex := ex == "1" }, "ok")
  | ["get", df] =>
    let (o, s) := getMedia d.h d.ex d.s (df == "1")
    let os := match o with | .value v => s!"value {v}" | .dflt => "dflt" | .raise e => s!"raise {showErr e}"
    ({ d with s := s }, s!"{os} des={s.desCalls}")
  | ["json", empty, loads] =>
    let body : List UInt8 := if empty == "1" then [] else [123]
    let l : Loads Nat := match loads.splitOn ":" with
      | ["ok", n] => .ok n.toNat! | ["ve"] => .valueError | ["re"] => .recursionError | ["oth", k] => .otherError k.toNat! | _ => .otherError 999
    (d, showDes (jsonDeserialize body l))
  | ["rnew"] => ({ d with r := {} }, "ok")
  | ["rset", m] => ({ d with r := setMedia d.r (if m == "none" then none else some m.toNat!) }, "ok")
  | ["render"] =>
    -- the serializer is the identity on ids: the bytes of document k are [k]
    let (o, r) := renderBody (fun m => [m.toUInt8]) d.r
    ({ d with r := r }, (match o with | none => "none" | some b => s!"some {b}") ++ s!" ser={r.serCalls}")
  | _ => (d, "bad-op")
partial def loop (h : IO.FS.Stream) (d : D) : IO Unit := do
  let line ← h.getLine
  if line.isEmpty then return ()
  let (d', out) := step d line
  IO.println out
  loop h d'
def main : IO Unit := do loop (← IO.getStdin) {}

import FalconModel.HandlersRule
/-! mhdriver — line protocol over the C11 models.

  Strings are hex (ASCII bytes), `-` = empty.  Handler objects are numbered in creation order (`new`, `copy`).
    reset                                   -> ok
    new <kvs>                               -> ok <mapping>          Handlers(initial): update() on an empty object
    set <i> <k> <v> | del <i> <k> | clear <i> | ior <i> <kvs> | update <i> <kvs> | pop <i> <k>
      | setdefault <i> <k> <v> | popitem <i> | evict <i> <n>
                                            -> ok <mapping> | keyerr <mapping>
    copy <i>                                -> ok <mapping of the new object>
    items <i>                               -> ok <mapping>
    resolve <i> <media_type> <default> <0|1>-> h <id> | 415 | none | unsupported
    quality <media_type> <header>           -> q <ten-thousandths> | err type | err range | unsupported
    best <c1,c2,..|none> <header>             -> m <hex> | err type | err range | unsupported
  <kvs>/<mapping> = hexkey:id,hexkey:id,... | -                                                               -/
open Mh

def hv (c : Char) : Nat := if c.isDigit then c.toNat - 48 else c.toNat - 87
def unhexL (s : String) : List Char :=
  let rec go : List Char → List Char
    | a :: b :: r => Char.ofNat (hv a * 16 + hv b) :: go r
    | _ => []
  if s == "-" then [] else go s.toList
def unhex (s : String) : String := String.ofList (unhexL s)
def hexD (n : Nat) : Char := if n < 10 then Char.ofNat (48 + n) else Char.ofNat (87 + n)
def toHexL (s : List Char) : String :=
  if s.isEmpty then "-" else String.ofList (s.flatMap fun c => [hexD (c.toNat / 16), hexD (c.toNat % 16)])
def toHex (s : String) : String := toHexL s.toList

def parseKvs (s : String) : Data :=
  if s == "-" then [] else
  (s.splitOn ",").filterMap fun it => match it.splitOn ":" with
    | [k, v] => some (unhex k, v.toNat!)
    | _ => none

def showMap (d : Data) : String :=
  if d.isEmpty then "-" else ",".intercalate (d.map fun (k, v) => toHex k ++ ":" ++ toString v)

def showErr : Mt.Err → String
  | .type => "err type"
  | .range => "err range"
  | .unsupported => "unsupported"

abbrev Objs := Array St

def withObj (os : Objs) (i : String) (k : St → Objs × String) : Objs × String :=
  match os[i.toNat!]? with
  | some s => k s
  | none => (os, "bad-object")

def mutate (os : Objs) (i : String) (x : XOp) : Objs × String :=
  withObj os i fun s =>
    let s' := xstep resolveRule s x
    (os.set! i.toNat! s', "ok " ++ showMap s'.data)

def step (os : Objs) (line : String) : Objs × String :=
  match line.trimAscii.toString.splitOn " " with
  | ["reset"] => (#[], "ok")
  | ["new", kvs] =>
    let s := xstep resolveRule { data := [], cache := [] } (.update (parseKvs kvs))
    (os.push s, "ok " ++ showMap s.data)
  | ["set", i, k, v] => mutate os i (.base (.set (unhex k) v.toNat!))
  | ["del", i, k] =>
    withObj os i fun s =>
      if hasKey s.data (unhex k) then mutate os i (.base (.del (unhex k))) else (os, "keyerr " ++ showMap s.data)
  | ["clear", i] => mutate os i (.base .clear)
  | ["ior", i, kvs] => mutate os i (.base (.ior (parseKvs kvs)))
  | ["update", i, kvs] => mutate os i (.update (parseKvs kvs))
  | ["pop", i, k] => mutate os i (.pop (unhex k))
  | ["setdefault", i, k, v] => mutate os i (.setdefault (unhex k) v.toNat!)
  | ["popitem", i] =>
    withObj os i fun s => if s.data.isEmpty then (os, "keyerr -") else mutate os i .popitem
  | ["evict", i, n] => mutate os i (.base (.evict n.toNat!))
  | ["copy", i] =>
    withObj os i fun s =>
      let c := xstep resolveRule s .copy
      (os.push c, "ok " ++ showMap c.data)
  | ["items", i] => withObj os i fun s => (os, "ok " ++ showMap s.data)
  | ["resolve", i, mt, dflt, r] =>
    withObj os i fun s =>
      let key := mkKey (unhex mt) (unhex dflt) (r == "1")
      -- a memo hit answers from the memo; only a miss evaluates the rule (and may leave the modelled fragment)
      if (s.cache.find? (·.1 == key)).isNone && ruleUnsupported s.data key then (os, "unsupported") else
      let (s', out) := Mh.step true resolveRule s (.resolve key)
      let rep := match out with
        | some (some h) => "h " ++ toString h
        | some none => if r == "1" then "415" else "none"
        | none => "bad"
      (os.set! i.toNat! s', rep)
  | ["quality", mt, hdr] =>
    match Mt.quality (unhexL mt) (unhexL hdr) with
    | .ok q => (os, "q " ++ toString q)
    | .error e => (os, showErr e)
  | ["best", cs, hdr] =>
    let cands := if cs == "none" then [] else (cs.splitOn ",").map unhexL
    match Mt.bestMatch cands (unhexL hdr) with
    | .ok m => (os, "m " ++ toHexL m)
    | .error e => (os, showErr e)
  | _ => (os, "bad-op")

partial def loop (h : IO.FS.Stream) (os : Objs) : IO Unit := do
  let line ← h.getLine
  if line.isEmpty then return ()
  let (os', out) := step os line
  IO.println out
  loop h os'
def main : IO Unit := do loop (← IO.getStdin) #[]

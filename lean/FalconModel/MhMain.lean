import FalconModel.RequestMedia
/-! mhdriver — line protocol over the C11 models.

  Strings are hex (ASCII bytes), `-` = empty.  Handler objects are numbered in creation order (`new`, `copy`).
    reset                                   -> ok
    new <kvs>                               -> ok <mapping>          Handlers(initial): update() on an empty object
    set <i> <k> <v> | del <i> <k> | clear <i> | ior <i> <kvs> | update <i> <kvs> | pop <i> <k>
      | setdefault <i> <k> <v> | popitem <i> | evict <i> <n>
    fupdate <i> <kvs> | fior <i> <kvs>      -> raised <mapping>      update() / |= that raised after storing <kvs>
                                            -> ok <mapping> | keyerr <mapping>
    copy <i>                                -> ok <mapping of the new object>
    items <i>                               -> ok <mapping>
    resolve <i> <media_type> <default> <0|1>-> h <id> | 415 | none | unsupported
    quality <media_type> <header>           -> q <ten-thousandths> | err type | err range | unsupported
    best <c1,c2,..|none> <header>             -> m <hex> | err type | err range | unsupported
  <kvs>/<mapping> = hexkey:id,hexkey:id,... | -

  One request object per `rnew` (model Rq: the per-request cache of get_media in front of the resolver):
    beh <id> <ok|notfound|fails>            -> ok                    what handler <id>'s deserialize does
    rnew <i> <content_type> <default>       -> ok                    a request whose options hold Handlers object <i>
    rset ct <s> | rset default <s> | rset handlers <i>
                                            -> ok                    req.content_type = / options.default_media_type = / options.media_handlers =
    rget <0|1>                              -> v <id> | 415 | raised <id> | dflt | unsupported      req.get_media([default_when_empty])
  (mutations of the mapping go through the object lines above; `rget` runs Rq.getMedia on the request's current object)       -/
open Mh

def hv (c : Char) : Nat := if c.isDigit then c.toNat - 48 else c.toNat - 87
def unhexL (s : String) : List Char :=
  let rec go : List Char → List Char
    | a :: b :: r => Char.ofNat (hv a * 16 + hv b) :: go r
    | _ => []
  if s == "-" then [] else go s.toList
def unhex (s : String) : String := String.ofList (unhexL s)
def hexD (n : Nat) : Char := if n < 10 then Char.ofNat (48 + n) else Char.ofNat (87 + n)
def toHexL (s : List Char) : String :=
  if s.isEmpty then "-" else String.ofList (s.flatMap fun c => [hexD (c.toNat / 16), hexD (c.toNat % 16)])
def toHex (s : String) : String := toHexL s.toList

def parseKvs (s : String) : Data :=
  if s == "-" then [] else
  (s.splitOn ",").filterMap fun it => match it.splitOn ":" with
    | [k, v] => some (unhex k, v.toNat!)
    | _ => none

def showMap (d : Data) : String :=
  if d.isEmpty then "-" else ",".intercalate (d.map fun (k, v) => toHex k ++ ":" ++ toString v)

def showErr : Mt.Err → String
  | .type => "err type"
  | .range => "err range"
  | .unsupported => "unsupported"

abbrev Objs := Array St

/-- the request of the current case: cache + content type, default type, index of its Handlers object, handler behaviours -/
structure RState where
  req : Rq.Req := { ct := "", media := none, err := none }
  dflt : String := ""
  hi : Nat := 0
  beh : List (Nat × Rq.Beh) := []

def RState.behOf (r : RState) (h : Nat) : Rq.Beh := ((r.beh.find? (·.1 == h)).map (·.2)).getD .ok

def showOut : Rq.Out → String
  | .value h => "v " ++ toString h
  | .e415 => "415"
  | .raised h => "raised " ++ toString h
  | .dflt => "dflt"

def rstep (os : Objs) (r : RState) (ws : List String) : Objs × RState × String :=
  match ws with
  | ["beh", h, b] =>
    let b' : Rq.Beh := if b == "notfound" then .notFound else if b == "fails" then .fails else .ok
    (os, { r with beh := (h.toNat!, b') :: r.beh }, "ok")
  | ["rnew", i, ct, dflt] => (os, { r with req := { ct := unhex ct, media := none, err := none }, dflt := unhex dflt, hi := i.toNat! }, "ok")
  | ["rset", "ct", s] => (os, { r with req := { r.req with ct := unhex s } }, "ok")
  | ["rset", "default", s] => (os, { r with dflt := unhex s }, "ok")
  | ["rset", "handlers", i] => (os, { r with hi := i.toNat! }, "ok")
  | ["rget", dwe] =>
    match os[r.hi]? with
    | none => (os, r, "bad-object")
    | some s =>
      let w : Rq.World := { h := s, dflt := r.dflt, req := r.req }
      let key := mkKey r.req.ct r.dflt true
      if r.req.media.isNone && r.req.err.isNone && (s.cache.find? (·.1 == key)).isNone && ruleUnsupported s.data key then
        (os, r, "unsupported")
      else
        let (w', out) := Rq.getMedia r.behOf w (dwe == "1")
        (os.set! r.hi w'.h, { r with req := w'.req }, showOut out)
  | _ => (os, r, "bad-op")

def withObj (os : Objs) (i : String) (k : St → Objs × String) : Objs × String :=
  match os[i.toNat!]? with
  | some s => k s
  | none => (os, "bad-object")

def mutate (os : Objs) (i : String) (x : XOp) : Objs × String :=
  withObj os i fun s =>
    let s' := xstep resolveRule s x
    (os.set! i.toNat! s', "ok " ++ showMap s'.data)

def step (os : Objs) (line : String) : Objs × String :=
  match line.trimAscii.toString.splitOn " " with
  | ["reset"] => (#[], "ok")
  | ["new", kvs] =>
    let s := xstep resolveRule { data := [], cache := [] } (.update (parseKvs kvs))
    (os.push s, "ok " ++ showMap s.data)
  | ["set", i, k, v] => mutate os i (.base (.set (unhex k) v.toNat!))
  | ["del", i, k] =>
    withObj os i fun s =>
      if hasKey s.data (unhex k) then mutate os i (.base (.del (unhex k))) else (os, "keyerr " ++ showMap s.data)
  | ["clear", i] => mutate os i (.base .clear)
  | ["ior", i, kvs] => mutate os i (.base (.ior (parseKvs kvs)))
  | ["update", i, kvs] => mutate os i (.update (parseKvs kvs))
  -- an operation that RAISED after storing `kvs` (observed): update() stores through __setitem__ (store + invalidation per item) ...
  | ["fupdate", i, kvs] =>
    withObj os i fun s =>
      let s' := xstep resolveRule s (.update (parseKvs kvs))
      (os.set! i.toNat! s', "raised " ++ showMap s'.data)
  -- ... `|=` stores into the dict (dict.update is not atomic) and the `finally` clause of __ior__() invalidates on the failure exit too
  | ["fior", i, kvs] =>
    withObj os i fun s =>
      let s' := (Mh.step true resolveRule s (.ior (parseKvs kvs))).1
      (os.set! i.toNat! s', "raised " ++ showMap s'.data)
  | ["pop", i, k] => mutate os i (.pop (unhex k))
  | ["setdefault", i, k, v] => mutate os i (.setdefault (unhex k) v.toNat!)
  | ["popitem", i] =>
    withObj os i fun s => if s.data.isEmpty then (os, "keyerr -") else mutate os i .popitem
  | ["evict", i, n] => mutate os i (.base (.evict n.toNat!))
  | ["copy", i] =>
    withObj os i fun s =>
      let c := xstep resolveRule s .copy
      (os.push c, "ok " ++ showMap c.data)
  | ["items", i] => withObj os i fun s => (os, "ok " ++ showMap s.data)
  | ["resolve", i, mt, dflt, r] =>
    withObj os i fun s =>
      let key := mkKey (unhex mt) (unhex dflt) (r == "1")
      -- a memo hit answers from the memo; only a miss evaluates the rule (and may leave the modelled fragment)
      if (s.cache.find? (·.1 == key)).isNone && ruleUnsupported s.data key then (os, "unsupported") else
      let (s', out) := Mh.step true resolveRule s (.resolve key)
      let rep := match out with
        | some (some h) => "h " ++ toString h
        | some none => if r == "1" then "415" else "none"
        | none => "bad"
      (os.set! i.toNat! s', rep)
  | ["quality", mt, hdr] =>
    match Mt.quality (unhexL mt) (unhexL hdr) with
    | .ok q => (os, "q " ++ toString q)
    | .error e => (os, showErr e)
  | ["best", cs, hdr] =>
    let cands := if cs == "none" then [] else (cs.splitOn ",").map unhexL
    match Mt.bestMatch cands (unhexL hdr) with
    | .ok m => (os, "m " ++ toHexL m)
    | .error e => (os, showErr e)
  | _ => (os, "bad-op")

def isReqOp (w : String) : Bool := w == "beh" || w == "rnew" || w == "rset" || w == "rget"

partial def loop (h : IO.FS.Stream) (os : Objs) (r : RState) : IO Unit := do
  let line ← h.getLine
  if line.isEmpty then return ()
  let ws := line.trimAscii.toString.splitOn " "
  if isReqOp (ws.headD "") then
    let (os', r', out) := rstep os r ws
    IO.println out
    loop h os' r'
  else
    let (os', out) := step os line
    IO.println out
    loop h os' (if ws == ["reset"] then {} else r)
def main : IO Unit := do loop (← IO.getStdin) #[] {}

import FalconModel.Multipart
import FalconModel.MultipartFlat
import FalconModel.MediaType
import FalconModel.QuotedString
open Rd Mp

def hexD (n : Nat) : Char := if n < 10 then Char.ofNat (48+n) else Char.ofNat (87+n)
def toHex (bs : Bytes) : String := String.ofList (bs.flatMap fun b => [hexD (b.toNat/16), hexD (b.toNat%16)])
def hv (c : Char) : Nat := if c.isDigit then c.toNat - 48 else c.toNat - 87
def fromHex (s : String) : Bytes :=
  let rec go : List Char → Bytes
    | a :: b :: r => (hv a * 16 + hv b).toUInt8 :: go r
    | _ => []
  if s == "-" then [] else go s.toList
def optInt (s : String) : Option Int := if s == "none" then none else s.toInt?
def showRes : Res → String
  | .ok b => "ok " ++ toHex b
  | .delimErr => "err delim"
  | .valueErr => "err value"

def runOp {σ : Type} [Source σ] (r : R σ) (ws : List String) : Option (R σ × String) :=
  match ws with
  | ["read", n] => let (b, r) := read r (optInt n); some (r, "ok " ++ toHex b)
  | ["peek", n] => let (b, r) := peek r n.toInt!; some (r, "ok " ++ toHex b)
  | ["ru", d, n, c] => let (x, r) := readUntil r (fromHex d) (optInt n) (c == "1"); some (r, showRes x)
  | ["pu", d, c] => let (x, r) := pipeUntil r (fromHex d) (c == "1") none; some (r, showRes x)
  | ["pipe"] => let (b, r) := pipe r; some (r, "ok " ++ toHex b)
  | ["rl", n] => let (x, r) := readline r (optInt n); some (r, showRes x)
  | _ => none

inductive St where
  | none
  | idle (f : Form) (r : R Src)
  | inPart (f : Form) (c : R (Delim Src))

def showErr : Err → String
  | .structure => "structure" | .incompleteHeaders => "headers" | .cte => "cte"
  | .tooManyParts => "count" | .value => "value"

def insertSorted (x : String) : List String → List String
  | [] => [x]
  | y :: ys => if x ≤ y then x :: y :: ys else y :: insertSorted x ys

def showHeaders (h : List (Bytes × Bytes)) : String :=
  let items := h.map fun (k, v) => toHex k ++ "=" ++ toHex v
  ";".intercalate (items.foldr insertSorted [])

def doNext (f : Form) (parent : R Src) : St × String :=
  if f.finished then (.idle f parent, "stop") else
  match next f parent with
  | (f, .part h c) => (.inPart f c, s!"part {showHeaders h} rem={c.src.parent.rem} crem={c.rem} asked={c.src.parent.src.asked.reverse}")
  | (f, .done p) => (.idle f p, s!"end rem={p.rem} asked={p.src.asked.reverse}")
  | (f, .err e p) => (.idle f p, s!"err {showErr e} rem={p.rem} asked={p.src.asked.reverse}")

def step (s : St) (line : String) : St × String :=
  match line.trimAscii.toString.splitOn " " with
  | ["mpnew", chunk, maxlen, dat, shorts, boundary, maxhdr, maxcount] =>
    let sh := if shorts == "-" then [] else (shorts.splitOn ",").map (·.toNat!)
    let r : R Src := { rem := maxlen.toInt!, chunk := chunk.toInt!, src := { data := fromHex dat, shorts := sh } }
    (.idle { delim := dashes ++ fromHex boundary, remaining := maxcount.toInt!, maxHdr := maxhdr.toInt!,
             maxCount := maxcount.toInt! } r, "ok")
  | ["next"] =>
    match s with
    | .idle f r => doNext f r
    | .inPart f c => doNext f c.src.parent
    | .none => (s, "bad-op")
  | "p" :: ws =>
    match s with
    | .inPart f c =>
      match runOp c ws with
      | some (c, out) => (.inPart f c, out ++ s!" rem={c.src.parent.rem} crem={c.rem} asked={c.src.parent.src.asked.reverse}")
      | none => (s, "bad-op")
    | _ => (s, "bad-op")
  | _ => (s, "bad-op")

/-! ### C13 cursor level: the reference encoder `Mf.encodeForm` and the flat parser `Mf.parseAll` -/

def hexOr (b : Bytes) : String := if b.isEmpty then "-" else toHex b

/-- `l1,l2,...|content;...` (`_` = no header lines, `-` = empty line / empty content / no parts) -/
def parseParts (s : String) : List Mf.Part :=
  if s == "-" then [] else
  (s.splitOn ";").map fun ps =>
    match ps.splitOn "|" with
    | [ls, c] => { lines := if ls == "_" then [] else (ls.splitOn ",").map fromHex, content := fromHex c }
    | _ => { lines := [], content := [] }

def showFlatErr : Mf.Err → String
  | .structure => "structure" | .incompleteHeaders => "headers" | .cte => "cte" | .tooManyParts => "count"

def showFlat (x : List (Mf.Headers × Bytes) × Mf.Outcome) : String :=
  let ps := x.1.map fun (h, c) => s!"p {let t := showHeaders h; if t.isEmpty then "-" else t} {hexOr c} "
  String.join ps ++ (match x.2 with | .finished => "end" | .error e => "err " ++ showFlatErr e | .fuel => "fuel")

/-! ### `parse_header` (falcon/util/mediatypes.py, model `Mt.parseHeader`) on the Content-Disposition / Content-Type value of a part:
  `ph <hex of the ASCII header value>` -> `<hex key> <hexname=hexvalue;... sorted | ->` -/
def hexChars (s : List Char) : String :=
  if s.isEmpty then "-" else String.ofList (s.flatMap fun c => [hexD (c.toNat / 16), hexD (c.toNat % 16)])

def showParams (ps : Mt.Params) : String :=
  if ps.isEmpty then "-" else
  ";".intercalate ((ps.map fun (k, v) => hexChars k ++ "=" ++ hexChars v).foldr insertSorted [])

/-! the reference quoted-string writer `Qe.quote` / `Qe.renderG` (FalconModel/QuotedString.lean, the encoder of the round-trip
  theorems `Mt.parseHeader_render[G]`): `qs <hex value>` -> `<hex of DQUOTE escaped DQUOTE>`;
  `rdg <hex main> <before:after:name:value,...|->` (each hex, `-` = empty) -> `<hex of the header value>` -/
def hexToChars (s : String) : List Char := (fromHex s).map fun b => Char.ofNat b.toNat

def parseGParams (s : String) : List Qe.GParam :=
  if s == "-" then [] else
  (s.splitOn ",").filterMap fun item =>
    match item.splitOn ":" with
    | [b, a, n, v] => some ⟨hexToChars b, hexToChars a, hexToChars n, hexToChars v⟩
    | _ => none

def flatStep (ws : List String) : Option String :=
  match ws with
  | ["ph", line] =>
    let (k, ps) := Mt.parseHeader ((fromHex line).map fun b => Char.ofNat b.toNat)
    some (hexChars k ++ " " ++ showParams ps)
  | ["qs", v] => some (hexChars (Qe.quote (hexToChars v)))
  | ["rdg", main, params] => some (hexChars (Qe.renderG (hexToChars main) (parseGParams params)))
  | ["encode", b, pre, epi, fin, parts] =>
    some (hexOr (Mf.encodeForm (parseParts parts) (fromHex b) (fromHex pre) (fromHex epi) (fin == "1")))
  | ["parseflat", body, b, maxhdr, maxcount] =>
    some (showFlat (Mf.parseAll (fromHex body) (fromHex b) ⟨maxhdr.toInt!, maxcount.toInt!⟩))
  | _ => none

partial def loop (h : IO.FS.Stream) (s : St) : IO Unit := do
  let line ← h.getLine
  if line.isEmpty then return ()
  match flatStep (line.trimAscii.toString.splitOn " ") with
  | some out => IO.println out; loop h s
  | none =>
    let (s', out) := step s line
    IO.println out
    loop h s'
def main : IO Unit := do loop (← IO.getStdin) .none

import FalconModel.PipelineReg
import FalconModel.PrepareMw
/-! Line protocol for C03, models `Pg.run` (FalconModel/PipelineReg.lean: the pipeline of `Ph.run` for an application given by
    exception CLASSES + the registration table of error handlers) and `Pm.run` (FalconModel/PrepareMw.lean: prepare_middleware).

    `runt <independent 0|1> <target r|m|s|n> <responder> <completing handlers> <n class-level> <hooks> <table> <req,rsrc,resp> …`
      action letters: r = return, c = complete, `-` = method not defined, and raises of … e = an HTTPError subclass, s = HTTPStatus,
      d = an application class (deriving from Exception) without a handler of its own, h / H / S / P / R = an application class whose
      own handler sets the response / raises HTTPError / raises HTTPStatus / raises a plain exception / re-raises what it got,
      n = a class deriving from BaseException only;
      completing handlers, hooks: as for `runh` of phdriver;
      table: three letters - the handler the application registered for HTTPStatus, HTTPError, Exception: `-` none (falcon's default
      stays), s sets the response, H raises HTTPError, S raises HTTPStatus, R re-raises what it got, P raises a plain exception
    -> `req:0 responder h:S@responder resp:0:true:false | responded:299 | complete:false`
       handler events name WHO is invoked: h H S P R = the class's own handler, TS / TE / TX = the one registered for HTTPStatus /
       HTTPError / Exception; falcon's own three handlers and its 404/405 responder are not printed

    `prep <asgi 0|1> <independent 0|1> <comp> …`, comp = `<req_async><req>,<rsrc_async><rsrc>,<resp_async><resp>,<other 0|1>`, each
      attribute `-` absent, c coroutine function, s sync function
    -> `req=0:a,1:p rsrc=- resp=1:p,0:a` (independent) / `req=0:a/p,1:p/p rsrc=- resp=-` (dependent: request/response pick of each pair, `-` for a missing one) / `CompatibilityError` / `TypeError` -/
open Pg

def beh (c : Char) : Option Beh := match c with
  | 's' => some .sets | 'H' => some .raisesHttp | 'S' => some .raisesStatus | 'R' => some .reraises | 'P' => some .raisesPlain | _ => none

def actr (s : String) : Option Act := match s with
  | "r" => some .ret | "c" => some .complete | "e" => some (.raise_ (.http .app)) | "s" => some (.raise_ .status)
  | "d" => some (.raise_ (.app none)) | "h" => some (.raise_ (.app (some .sets))) | "H" => some (.raise_ (.app (some .raisesHttp)))
  | "S" => some (.raise_ (.app (some .raisesStatus))) | "P" => some (.raise_ (.app (some .raisesPlain)))
  | "R" => some (.raise_ (.app (some .reraises))) | "n" => some (.raise_ .baseOnly)
  | _ => none

def showSite : Ph.Site → String
  | .req i => s!"req:{i}" | .rsrc i => s!"rsrc:{i}" | .before k => s!"bef:{k}" | .responder => "responder" | .after k => s!"aft:{k}"
  | .defaultResponder => "default" | .resp i => s!"resp:{i}"

def showWho : Handler → Option String
  | .user .own .sets => some "h" | .user .own .raisesHttp => some "H" | .user .own .raisesStatus => some "S"
  | .user .own .raisesPlain => some "P" | .user .own .reraises => some "R"
  | .user .forStatus _ => some "TS" | .user .forError _ => some "TE" | .user .forException _ => some "TX"
  | _ => none

def showEv : Ev → Option String
  | .call (.req i) => some s!"req:{i}" | .call (.rsrc i) => some s!"rsrc:{i}"
  | .call (.before k) => some s!"bef:{k}" | .call .responder => some "responder" | .call (.after k) => some s!"aft:{k}"
  | .call .defaultResponder => none
  | .call (.resp i h s) => some s!"resp:{i}:{h}:{s}"
  | .handler s (some h) => (showWho h).map fun w => s!"h:{w}@{showSite s}"
  | .handler _ none => some "h:?"

def showStatus : Pe.Status → String
  | .ok => "200" | .http .app => "403" | .http .notFound => "404" | .http .notAllowed => "405" | .status => "202"
  | .custom => "418" | .internal => "500" | .handlerHttp => "409" | .handlerStatus => "299"
def showOutcome : Pe.Outcome → String
  | .responded st => s!"responded:{showStatus st}" | .escaped => "escaped"
def parseTarget (tgt : String) : Pl.Target := match tgt with | "r" => .route | "m" => .noMethod | "s" => .sink | _ => .nothing
def parseHooks (s : String) : List Deco :=
  if s == "-" then [] else
  let ds := s.splitOn ","
  (List.range ds.length).zip ds |>.map fun (k, d) =>
    match d.toList with
    | ['b', a] => Deco.before k ((actr a.toString).getD .ret)
    | [_, a] => Deco.after k ((actr a.toString).getD .ret)
    | _ => Deco.after k .ret
def parseHc (s : String) : Pe.Hb → Bool
  | .sets => s.contains 'h' | .raisesHttp => s.contains 'H' | .raisesStatus => s.contains 'S' | .raisesPlain => s.contains 'P'
  | _ => false
def parseTable (s : String) : Table :=
  match s.toList with
  | [a, b, c] => ⟨beh a, beh b, beh c⟩
  | _ => .default

def fnOf (c : Char) : Option Pm.Fn := match c with | 'c' => some .coroutine | 's' => some .syncFn | _ => none
def attrs (s : String) : Pm.Attrs := match s.toList with | [a, p] => ⟨fnOf a, fnOf p⟩ | _ => ⟨none, none⟩
def showPick : Pm.Pick → String | .async_ => "a" | .plain => "p"
def showOPick : Option Pm.Pick → String | some p => showPick p | none => "-"
def orDash (l : List String) : String := if l.isEmpty then "-" else ",".intercalate l

def step (line : String) : String :=
  match line.trimAscii.toString.splitOn " " with
  | "runt" :: indep :: tgt :: resp :: hc :: ncls :: hooks :: tbl :: comps =>
    let cs := comps.filter (· != "") |>.map fun c =>
      match c.splitOn "," with
      | [a, b, d] => ({ req := actr a, rsrc := actr b, resp := actr d } : Comp)
      | _ => { req := none, rsrc := none, resp := none }
    let hs := parseHooks hooks
    let n := ncls.toNat!
    let (t, o, cp) := run { comps := cs, independent := indep == "1", target := parseTarget tgt, responder := (actr resp).getD .ret,
                            classHooks := hs.take n, methodHooks := hs.drop n, handlerCompletes := parseHc hc, table := parseTable tbl }
    " ".intercalate (t.filterMap showEv) ++ " | " ++ showOutcome o ++ s!" | complete:{cp}"
  | "prep" :: asgi :: indep :: comps =>
    let cs := comps.filter (· != "") |>.map fun c =>
      match c.splitOn "," with
      | [a, b, d, o] => ({ req := attrs a, rsrc := attrs b, resp := attrs d, other := o == "1" } : Pm.Comp)
      | _ => { req := ⟨none, none⟩, rsrc := ⟨none, none⟩, resp := ⟨none, none⟩, other := false }
    match Pm.run (asgi == "1") (indep == "1") cs with
    | .error .compatibility => "CompatibilityError"
    | .error .typeError => "TypeError"
    | .ok st =>
      let rq := st.request.map fun (i, a, b) => if indep == "1" then s!"{i}:{showOPick a}" else s!"{i}:{showOPick a}/{showOPick b}"
      s!"req={orDash rq} rsrc={orDash (st.resource.map fun (i, p) => s!"{i}:{showPick p}")} resp={orDash (st.response.map fun (i, p) => s!"{i}:{showPick p}")}"
  | _ => "bad-op"
partial def loop (h : IO.FS.Stream) : IO Unit := do
  let line ← h.getLine
  if line.isEmpty then return ()
  IO.println (step line)
  loop h
def main : IO Unit := do loop (← IO.getStdin)

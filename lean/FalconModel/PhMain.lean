import FalconModel.PipelineHooks
open Ph
/-! Line protocol for C03, model `Ph.run` (FalconModel/PipelineHooks.lean): the pipeline with the hook-wrapped responder and
    error handlers that may set `resp.complete`.

    `runh <independent 0|1> <target r|m|s|n> <responder> <completing handlers> <n class-level> <hooks> <req,rsrc,resp> …`
      action letters as for `runx` of pldriver: r c e s h d H S P n ('-' = method not defined);
      completing handlers: the letters among h H S P whose error handler executes `resp.complete = True`, or `-`;
      hooks: `-` or a comma-separated list, outermost first, of `b<action>` / `a<action>`; the first <n class-level> of them
      decorate the class, the others the method
    -> `req:0 rsrc:0 bef:0 responder aft:1 h:h@aft:1 resp:0:true:false | responded:418 | complete:false` -/
def actx (s : String) : Option Pe.Act := match s with
  | "r" => some .ret | "c" => some .complete | "e" => some (.raise_ (.http .app)) | "s" => some (.raise_ .status)
  | "h" => some (.raise_ (.app .sets)) | "d" => some (.raise_ (.app .default)) | "H" => some (.raise_ (.app .raisesHttp))
  | "S" => some (.raise_ (.app .raisesStatus)) | "P" => some (.raise_ (.app .raisesPlain)) | "n" => some (.raise_ (.app .none))
  | _ => none
def showSite : Site → String
  | .req i => s!"req:{i}" | .rsrc i => s!"rsrc:{i}" | .before k => s!"bef:{k}" | .responder => "responder" | .after k => s!"aft:{k}"
  | .defaultResponder => "default" | .resp i => s!"resp:{i}"
/-- falcon's own 404/405 responder and its own (default) error handlers cannot be observed through the public API: they
    are not printed; what they do is visible in the final status -/
def showEv : Ev → Option String
  | .call (.req i) _ => some s!"req:{i}" | .call (.rsrc i) _ => some s!"rsrc:{i}"
  | .call (.before k) _ => some s!"bef:{k}" | .call .responder _ => some "responder" | .call (.after k) _ => some s!"aft:{k}"
  | .call .defaultResponder _ => none
  | .call (.resp i h s) _ => some s!"resp:{i}:{h}:{s}"
  | .handler s (.app .sets) => some s!"h:h@{showSite s}"
  | .handler s (.app .raisesHttp) => some s!"h:H@{showSite s}"
  | .handler s (.app .raisesStatus) => some s!"h:S@{showSite s}"
  | .handler s (.app .raisesPlain) => some s!"h:P@{showSite s}"
  | .handler _ _ => none
def showStatus : Pe.Status → String
  | .ok => "200" | .http .app => "403" | .http .notFound => "404" | .http .notAllowed => "405" | .status => "202"
  | .custom => "418" | .internal => "500" | .handlerHttp => "409" | .handlerStatus => "299"
def showOutcome : Pe.Outcome → String
  | .responded st => s!"responded:{showStatus st}" | .escaped => "escaped"
def parseTarget (tgt : String) : Pl.Target := match tgt with | "r" => .route | "m" => .noMethod | "s" => .sink | _ => .nothing
def parseHooks (s : String) : List Deco :=
  if s == "-" then [] else
  let ds := s.splitOn ","
  (List.range ds.length).zip ds |>.map fun (k, d) =>
    match d.toList with
    | ['b', a] => Deco.before k ((actx a.toString).getD .ret)
    | [_, a] => Deco.after k ((actx a.toString).getD .ret)
    | _ => Deco.after k .ret
def parseHc (s : String) : Pe.Hb → Bool
  | .sets => s.contains 'h' | .raisesHttp => s.contains 'H' | .raisesStatus => s.contains 'S' | .raisesPlain => s.contains 'P'
  | _ => false

def step (line : String) : String :=
  match line.trimAscii.toString.splitOn " " with
  | "runh" :: indep :: tgt :: resp :: hc :: ncls :: hooks :: comps =>
    let cs := comps.filter (· != "") |>.map fun c =>
      match c.splitOn "," with
      | [a, b, d] => ({ req := actx a, rsrc := actx b, resp := actx d } : Pe.Comp)
      | _ => { req := none, rsrc := none, resp := none }
    let hs := parseHooks hooks
    let n := ncls.toNat!
    let (t, o, cp) := run { comps := cs, independent := indep == "1", target := parseTarget tgt, responder := (actx resp).getD .ret,
                            classHooks := hs.take n, methodHooks := hs.drop n, handlerCompletes := parseHc hc }
    " ".intercalate (t.filterMap showEv) ++ " | " ++ showOutcome o ++ s!" | complete:{cp}"
  | _ => "bad-op"
partial def loop (h : IO.FS.Stream) : IO Unit := do
  let line ← h.getLine
  if line.isEmpty then return ()
  IO.println (step line)
  loop h
def main : IO Unit := do loop (← IO.getStdin)

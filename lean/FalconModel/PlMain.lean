import FalconModel.Pipeline
import FalconModel.PipelineErr
open Pl
def act (s : String) : Option Act := match s with | "r" => some .ret | "c" => some .complete | "x" => some .raise_ | _ => none
def showCall : Call → String
  | .req i => s!"req:{i}" | .rsrc i => s!"rsrc:{i}" | .responder => "responder"
  | .resp i h s => s!"resp:{i}:{h}:{s}"

/-! `runx`: the refined model `Pe.run` (FalconModel/PipelineErr.lean).  Action letters: r = return, c = complete,
    e = raise HTTPError, s = raise HTTPStatus, application error whose handler … h = sets the response, d = is falcon's
    default one, H = raises HTTPError, S = raises HTTPStatus, P = raises a plain exception, n = does not exist. -/
def actx (s : String) : Option Pe.Act := match s with
  | "r" => some .ret | "c" => some .complete | "e" => some (.raise_ (.http .app)) | "s" => some (.raise_ .status)
  | "h" => some (.raise_ (.app .sets)) | "d" => some (.raise_ (.app .default)) | "H" => some (.raise_ (.app .raisesHttp))
  | "S" => some (.raise_ (.app .raisesStatus)) | "P" => some (.raise_ (.app .raisesPlain)) | "n" => some (.raise_ (.app .none))
  | _ => none
def showSite : Pe.Site → String
  | .req i => s!"req:{i}" | .rsrc i => s!"rsrc:{i}" | .responder => "responder" | .defaultResponder => "default" | .resp i => s!"resp:{i}"
/-- falcon's own 404/405 responder and its own (default) error handlers cannot be observed through the public API: they
    are not printed; what they do is visible in the final status -/
def showEv : Pe.Ev → Option String
  | .call (.req i) _ => some s!"req:{i}" | .call (.rsrc i) _ => some s!"rsrc:{i}" | .call .responder _ => some "responder"
  | .call .defaultResponder _ => none
  | .call (.resp i h s) _ => some s!"resp:{i}:{h}:{s}"
  | .handler s (.app .sets) => some s!"h:h@{showSite s}"
  | .handler s (.app .raisesHttp) => some s!"h:H@{showSite s}"
  | .handler s (.app .raisesStatus) => some s!"h:S@{showSite s}"
  | .handler s (.app .raisesPlain) => some s!"h:P@{showSite s}"
  | .handler _ _ => none
def showStatus : Pe.Status → String
  | .ok => "200" | .http .app => "403" | .http .notFound => "404" | .http .notAllowed => "405" | .status => "202"
  | .custom => "418" | .internal => "500" | .handlerHttp => "409" | .handlerStatus => "299"
def showOutcome : Pe.Outcome → String
  | .responded st => s!"responded:{showStatus st}" | .escaped => "escaped"

def parseTarget (tgt : String) : Target := match tgt with | "r" => .route | "m" => .noMethod | "s" => .sink | _ => .nothing

def step (line : String) : String :=
  match line.trimAscii.toString.splitOn " " with
  | "run" :: indep :: tgt :: resp :: comps =>
    let cs := comps.filter (· != "") |>.map fun c =>
      match c.splitOn "," with
      | [a, b, d] => ({ req := act a, rsrc := act b, resp := act d } : Comp)
      | _ => { req := none, rsrc := none, resp := none }
    " ".intercalate ((run { comps := cs, independent := indep == "1", target := parseTarget tgt, responder := (act resp).getD .ret }).map showCall)
  | "runx" :: indep :: tgt :: resp :: comps =>
    let cs := comps.filter (· != "") |>.map fun c =>
      match c.splitOn "," with
      | [a, b, d] => ({ req := actx a, rsrc := actx b, resp := actx d } : Pe.Comp)
      | _ => { req := none, rsrc := none, resp := none }
    let (t, o) := Pe.run { comps := cs, independent := indep == "1", target := parseTarget tgt, responder := (actx resp).getD .ret }
    " ".intercalate (t.filterMap showEv) ++ " | " ++ showOutcome o
  | _ => "bad-op"
partial def loop (h : IO.FS.Stream) : IO Unit := do
  let line ← h.getLine
  if line.isEmpty then return ()
  IO.println (step line)
  loop h
def main : IO Unit := do loop (← IO.getStdin)

import FalconModel.Pipeline
open Pl
def act (s : String) : Option Act := match s with | "r" => some .ret | "c" => some .complete | "x" => some .raise_ | _ => none
def showCall : Call → String
  | .req i => s!"req:{i}" | .rsrc i => s!"rsrc:{i}" | .responder => "responder"
  | .resp i h s => s!"resp:{i}:{h}:{s}"
def step (line : String) : String :=
  match line.trimAscii.toString.splitOn " " with
  | "run" :: indep :: tgt :: resp :: comps =>
    let target : Target := match tgt with | "r" => .route | "m" => .noMethod | "s" => .sink | _ => .nothing
    let cs := comps.filter (· != "") |>.map fun c =>
      match c.splitOn "," with
      | [a, b, d] => ({ req := act a, rsrc := act b, resp := act d } : Comp)
      | _ => { req := none, rsrc := none, resp := none }
    " ".intercalate ((run { comps := cs, independent := indep == "1", target := target, responder := (act resp).getD .ret }).map showCall)
  | _ => "bad-op"
partial def loop (h : IO.FS.Stream) : IO Unit := do
  let line ← h.getLine
  if line.isEmpty then return ()
  IO.println (step line)
  loop h
def main : IO Unit := do loop (← IO.getStdin)

import FalconModel.Query
open Qs
def hv (c : Char) : Nat := if c.isDigit then c.toNat - 48 else c.toNat - 87
def fromHex (s : String) : List UInt8 :=
  let rec go : List Char → List UInt8
    | a :: b :: r => (hv a * 16 + hv b).toUInt8 :: go r
    | _ => []
  if s == "-" then [] else go s.toList
def showStr (s : Str) : String := if s.isEmpty then "-" else ".".intercalate (s.map toString)
def showVal : Val → String
  | .one v => "1:" ++ showStr v
  | .many vs => "m:" ++ ",".intercalate (vs.map showStr)
partial def loop (h : IO.FS.Stream) : IO Unit := do
  let line ← h.getLine
  if line.isEmpty then return ()
  match line.trimAscii.toString.splitOn " " with
  | [kb, csv, hx] =>
    let p := parseQS (fromHex hx) (kb == "1") (csv == "1")
    IO.println (" ".intercalate (p.map fun e => showStr e.1 ++ "=" ++ showVal e.2))
  | _ => IO.println "bad-op"
  loop h
def main : IO Unit := do loop (← IO.getStdin)

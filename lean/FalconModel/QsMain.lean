import FalconModel.Query
import FalconModel.Getters
open Qs
def hv (c : Char) : Nat := if c.isDigit then c.toNat - 48 else c.toNat - 87
def fromHex (s : String) : List UInt8 :=
  let rec go : List Char → List UInt8
    | a :: b :: r => (hv a * 16 + hv b).toUInt8 :: go r
    | _ => []
  if s == "-" then [] else go s.toList
def hexDigitC (n : Nat) : Char := if n < 10 then Char.ofNat (48 + n) else Char.ofNat (87 + n)
def toHex (bs : List UInt8) : String :=
  if bs.isEmpty then "-" else String.ofList (bs.flatMap fun b => [hexDigitC (b.toNat / 16), hexDigitC (b.toNat % 16)])
def showStr (s : Str) : String := if s.isEmpty then "-" else ".".intercalate (s.map toString)
def showVal : Val → String
  | .one v => "1:" ++ showStr v
  | .many vs => "m:" ++ ",".intercalate (vs.map showStr)

/-! ### getter ops: the store holds rendered values (σ := String) -/
def optInt (s : String) : Option Int := if s == "none" then none else s.toInt?
/-- `none` | `-` (empty dict) | `<name hex>:<token>,…` -/
def parseStore (s : String) : Option (Gt.Store String) :=
  if s == "none" then none
  else if s == "-" then some []
  else some ((s.splitOn ",").map fun e =>
    match e.splitOn ":" with
    | [k, v] => (U8.decodeReplace (fromHex k), v)
    | _ => ([], "?"))
def showStore : Option (Gt.Store String) → String
  | none => "none"
  | some [] => "-"
  | some l => ";".intercalate (l.map fun e => showStr e.1 ++ "=" ++ e.2)
def showBool (b : Bool) : String := if b then "True" else "False"
def showStrs (l : List Str) : String := "[" ++ ",".intercalate (l.map showStr) ++ "]"
def showInts (l : List Int) : String := "[" ++ ",".intercalate (l.map toString) ++ "]"
def showOut (f : α → String) : Gt.Out α String → String
  | .indexError => "indexError"
  | .ret r st =>
    (match r with
      | .value v => "value:" ++ f v
      | .default => "default"
      | .missing400 => "missing400"
      | .invalid400 => "invalid400") ++ " | " ++ showStore st

def parseCps (s : String) : Str := if s == "-" then [] else (s.splitOn ".").map String.toNat!

/-- `<khex>=1:<vhex>` | `<khex>=m:<vhex>,<vhex>,…` joined by `;` (`-` = empty mapping; `m:` alone = empty list) -/
def parseMapping (s : String) : List (List UInt8 × Gt.BVal) :=
  if s == "-" then [] else (s.splitOn ";").map fun item =>
    match item.splitOn "=" with
    | [k, v] =>
      if v.startsWith "1:" then (fromHex k, .one (fromHex (v.drop 2).toString))
      else
        let body := (v.drop 2).toString
        (fromHex k, .many (if body.isEmpty then [] else (body.splitOn ",").map fromHex))
    | _ => ([], .one [])

partial def loop (h : IO.FS.Stream) : IO Unit := do
  let line ← h.getLine
  if line.isEmpty then return ()
  match line.trimAscii.toString.splitOn " " with
  | ["getparam", q, kb, csv, name, req, st] =>
    let p := parseQS (fromHex q) (kb == "1") (csv == "1")
    IO.println (showOut showStr (Gt.getParam showStr p (U8.decodeReplace (fromHex name)) (req == "1") (parseStore st)))
  | ["getint", q, kb, csv, name, req, mn, mx, st] =>
    let p := parseQS (fromHex q) (kb == "1") (csv == "1")
    IO.println (showOut toString (Gt.getInt toString p (U8.decodeReplace (fromHex name)) (req == "1") (optInt mn) (optInt mx) (parseStore st)))
  | ["getbool", q, kb, csv, name, req, blank, st] =>
    let p := parseQS (fromHex q) (kb == "1") (csv == "1")
    IO.println (showOut showBool (Gt.getBool showBool p (U8.decodeReplace (fromHex name)) (req == "1") (blank == "1") (parseStore st)))
  | ["getlist", q, kb, csv, name, req, tr, st] =>
    let p := parseQS (fromHex q) (kb == "1") (csv == "1")
    let nm := U8.decodeReplace (fromHex name)
    if tr == "int" then
      IO.println (showOut showInts (Gt.getListT Gt.pyInt showInts p nm (req == "1") (parseStore st)))
    else
      IO.println (showOut showStrs (Gt.getList showStrs p nm (req == "1") (parseStore st)))
  | ["pyint", cps] =>
    IO.println (match Gt.pyInt (parseCps cps) with | some v => toString v | none => "VE")
  | ["tables"] =>
    IO.println ("T " ++ ",".intercalate (Gt.trueStrings.map showStr) ++ " F " ++ ",".intercalate (Gt.falseStrings.map showStr)
      ++ " Z " ++ ",".intercalate (Gt.digitZeros.map toString) ++ " MAXDIGITS " ++ toString Gt.maxStrDigits)
  | ["intws", lo, hi] =>     -- the code points in [lo, hi) that int() strips
    IO.println ("W " ++ ",".intercalate (((List.range (hi.toNat! - lo.toNat!)).map (· + lo.toNat!)).filter Gt.isIntWs |>.map toString))
  | ["toqs", cdl, pfx, m] =>
    IO.println (toHex (Gt.toQueryStr (parseMapping m) (cdl == "1") (pfx == "1")))
  | [kb, csv, hx] =>
    let p := parseQS (fromHex hx) (kb == "1") (csv == "1")
    IO.println (" ".intercalate (p.map fun e => showStr e.1 ++ "=" ++ showVal e.2))
  | _ => IO.println "bad-op"
  loop h
def main : IO Unit := do loop (← IO.getStdin)

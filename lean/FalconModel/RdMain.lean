import FalconModel.ReaderExtra
open Rd

def hexD (n : Nat) : Char := if n < 10 then Char.ofNat (48+n) else Char.ofNat (87+n)
def toHex (bs : Bytes) : String := String.ofList (bs.flatMap fun b => [hexD (b.toNat/16), hexD (b.toNat%16)])
def hv (c : Char) : Nat := if c.isDigit then c.toNat - 48 else c.toNat - 87
def fromHex (s : String) : Bytes :=
  let rec go : List Char → Bytes
    | a :: b :: r => (hv a * 16 + hv b).toUInt8 :: go r
    | _ => []
  if s == "-" then [] else go s.toList
def optInt (s : String) : Option Int := if s == "none" then none else s.toInt?
def showRes : Res → String
  | .ok b => "ok " ++ toHex b
  | .delimErr => "err delim"
  | .valueErr => "err value"

/-- one reader operation, for a reader over any kind of source -/
def runOp {σ : Type} [Source σ] (r : R σ) (ws : List String) : Option (R σ × String) :=
  match ws with
  | ["read", n] => let (b, r) := read r (optInt n); some (r, "ok " ++ toHex b)
  | ["peek", n] => let (b, r) := peek r n.toInt!; some (r, "ok " ++ toHex b)
  | ["ru", d, n, c] => let (x, r) := readUntil r (fromHex d) (optInt n) (c == "1"); some (r, showRes x)
  | ["pu", d, c] => let (x, r) := pipeUntil r (fromHex d) (c == "1") none; some (r, showRes x)
  | ["pipe"] => let (b, r) := pipe r; some (r, "ok " ++ toHex b)
  | ["rl", n] => let (x, r) := readline r (optInt n); some (r, showRes x)
  | ["rls", h] =>
    match readlines r h.toInt! with
    | (some ls, r) => some (r, "lines" ++ String.join (ls.map fun l => " " ++ toHex l))
    | (none, r) => some (r, "err value")
  | ["exhaust"] => some (exhaust r, "unit")
  | _ => none

/-- a chain of nested delimited readers, innermost last; two levels of nesting are enough for the properties -/
inductive St where
  | l0 (r : R Src)
  | l1 (r : R (Delim Src))
  | l2 (r : R (Delim (Delim Src)))

/-- sizes requested from the root source so far, newest first -/
def St.askedRev : St → List Int
  | .l0 r => r.src.asked
  | .l1 r => r.src.parent.src.asked
  | .l2 r => r.src.parent.src.parent.src.asked

def fin {σ : Type} (r : R σ × String) (wrap : R σ → St) : St × String := (wrap r.1, r.2)

/-- apply an operation to the reader `up` levels above the innermost one -/
def St.apply (s : St) (up : Nat) (ws : List String) : St × String :=
  match s, up with
  | .l0 r, 0 => match runOp r ws with | some x => fin x .l0 | none => (s, "bad-op")
  | .l1 r, 0 => match runOp r ws with | some x => fin x .l1 | none => (s, "bad-op")
  | .l1 r, 1 => match runOp r.src.parent ws with
      | some x => fin x (fun p => .l1 { r with src := { r.src with parent := p } }) | none => (s, "bad-op")
  | .l2 r, 0 => match runOp r ws with | some x => fin x .l2 | none => (s, "bad-op")
  | .l2 r, 1 => match runOp r.src.parent ws with
      | some x => fin x (fun p => .l2 { r with src := { r.src with parent := p } }) | none => (s, "bad-op")
  | .l2 r, 2 => match runOp r.src.parent.src.parent ws with
      | some x => fin x (fun p => .l2 { r with src := { r.src with parent :=
          { r.src.parent with src := { r.src.parent.src with parent := p } } } }) | none => (s, "bad-op")
  | _, _ => (s, "bad-op")

/-- append the sizes the root source was asked for *during this operation* (in order) -/
def withAsked (s0 : St) (x : St × String) : St × String :=
  let n0 := s0.askedRev.length
  let a := x.1.askedRev
  (x.1, x.2 ++ s!" asked={(a.take (a.length - n0)).reverse}")

def step (s : St) (line : String) : St × String :=
  match line.trimAscii.toString.splitOn " " with
  | ["new", chunk, maxlen, dat, shorts] =>
    let sh := if shorts == "-" then [] else (shorts.splitOn ",").map (·.toNat!)
    (.l0 { rem := maxlen.toInt!, chunk := chunk.toInt!, src := { data := fromHex dat, shorts := sh } }, "ok")
  | ["delimit", d] =>
    match s with
    | .l0 r => (.l1 (delimit r (fromHex d)), "ok")
    | .l1 r => (.l2 (delimit r (fromHex d)), "ok")
    | _ => (s, "bad-op")
  | ["pop"] =>
    match s with
    | .l1 r => (.l0 r.src.parent, "ok")
    | .l2 r => (.l1 r.src.parent, "ok")
    | _ => (s, "bad-op")
  | "up" :: k :: ws => withAsked s (s.apply k.toNat! ws)
  | ws => withAsked s (s.apply 0 ws)

partial def loop (h : IO.FS.Stream) (s : St) : IO Unit := do
  let line ← h.getLine
  if line.isEmpty then return ()
  let (s', out) := step s line
  IO.println out
  loop h s'
def main : IO Unit := do loop (← IO.getStdin) (.l0 { rem := 0, chunk := 1, src := { data := [], shorts := [] } })

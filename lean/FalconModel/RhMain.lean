import FalconModel.RouterLazy
import Std.Data.HashMap
/-! C01 line-protocol driver: a whole router history.  `add` runs `Ri.insert true` (the repaired `add_route`), `find` runs
    `Rt.runFinder` (codegen + big-step semantics of the generated code) and `Rt.runSpec` (the depth-first walk) on
    `Rh.toNodes` of that tree.  The router is the lazy-compile machine `Rl.Router`: `add … <flag>` is `Rl.addSegs`, `find` is
    `Rl.find` (the executed finder runs on the tree snapshot taken at compile time; the walk on the current tree).
    `validate <hex template>` runs the native template parser/validator `Rv.validate` (converter facts via `known`/`inst`).  `re` / converter behaviour is table-fed, keyed by pattern text / converter spec id, so
    nothing of the real router's private state enters the model. -/
open Rt Ri Rh

def hv (c : Char) : Nat := if c.isDigit then c.toNat - 48 else c.toNat - 87
def unhex (s : String) : String :=
  let rec go : List Char → List UInt8
    | a :: b :: r => (hv a * 16 + hv b).toUInt8 :: go r
    | _ => []
  if s == "-" then "" else (String.fromUTF8? (ByteArray.mk (go s.toList).toArray)).getD "?"
def hexD (n : Nat) : Char := if n < 10 then Char.ofNat (48+n) else Char.ofNat (87+n)
def toHexS (s : String) : String := if s.isEmpty then "-" else String.ofList (s.toUTF8.toList.flatMap fun b => [hexD (b.toNat/16), hexD (b.toNat%16)])

structure SegDef where
  seg : Seg
  raw : String
  kind : Kind
  specs : List Nat          -- converter spec ids, in the order of the node's converter uses

structure Derived where
  nodes : List Node := []
  pats : Array String := #[]
  convs : Array Nat := #[]
  rvs : Array Nat := #[]

structure St where
  router : Rl.Router := {}
  known : Std.HashMap String Bool := {}                      -- registered converter name -> consumes multiple segments
  instT : Std.HashMap (String × Option String) Bool := {}    -- (cname, argstr) -> instantiation does not raise
  defs : Std.HashMap Nat SegDef := {}
  byRaw : Std.HashMap String (List Nat) := {}
  pm : Std.HashMap (String × String) Dict := {}
  cv : Std.HashMap (Nat × String) String := {}
  cur : Derived := {}                 -- derived from `router.roots` after every `add`
  snapD : Option Derived := none      -- cache: derived from `router.compiled` (the tree the finder was compiled from)

partial def parseConvs : Nat → List String → List ConvUse × List Nat
  | n+1, f :: m :: sp :: t => let (cs, ss) := parseConvs n t; ({ field := unhex f, multi := m == "1" } :: cs, sp.toNat! :: ss)
  | _, _ => ([], [])

def parseKind : List String → Option (Kind × List Nat)
  | ["L"] => some (.lit, [])
  | ["S", name, "0"] => some (.simple (unhex name) none, [])
  | ["S", name, "1", m, sp] => some (.simple (unhex name) (some { field := unhex name, multi := m == "1" }), [sp.toNat!])
  | "C" :: pat :: nf :: nc :: t =>
    let (cs, ss) := parseConvs nc.toNat! t
    some (.complex (unhex pat) cs nf.toNat!, ss)
  | _ => none

def parseSeg (id : Nat) (t : String) : Option Seg :=
  match (t.splitOn ",").map (·.toNat!) with
  | [v, c, sh, cpc] => some { raw := id, isVar := v == 1, isComplex := c == 1, shape := sh, cpc := cpc == 1 }
  | _ => none

partial def dump : Tree → String
  | .node s r ch => s!"({s.raw} {if r.isSome then 1 else 0} [{" ".intercalate (ch.map dump)}])"

/-- compile order = pre-order of the tree with every sibling list sorted literal < complex < simple (stable) -/
partial def patsOf (ns : List Node) : List String :=
  (sortNodes ns).flatMap fun n => (match n.kind with | .complex t _ _ => [t] | _ => []) ++ patsOf n.children
partial def convsOf (sp : String → List Nat) (ns : List Node) : List Nat :=
  (sortNodes ns).flatMap fun n => (match n.kind with | .lit => [] | _ => sp n.raw) ++ convsOf sp n.children
partial def rvsOf (key : Tree → Nat) (ts : List Tree) : List Nat :=
  (ts.filter (key · == 0) ++ ts.filter (key · == 1) ++ ts.filter (key · == 2)).flatMap fun
    | .node _ r ch => r.toList ++ rvsOf key ch

def St.kinds (s : St) : Nat → String × Kind := fun id =>
  match s.defs[id]? with
  | some d => (d.raw, d.kind)
  | none => ("?", .lit)

def St.derive (s : St) (roots : List Tree) : Derived :=
  let k := s.kinds
  let nodes := toNodes k roots
  let key : Tree → Nat := fun t => match (k t.seg.raw).2 with | .lit => 0 | .complex .. => 1 | .simple .. => 2
  { nodes := nodes, pats := (patsOf nodes).toArray,
    convs := (convsOf (fun r => (s.byRaw[r]?).getD []) nodes).toArray,
    rvs := (rvsOf key roots).toArray }

def St.tables (s : St) (d : Derived) : Tables :=
  { pmatch := fun i seg => match d.pats[i]? with | some t => s.pm[(t, seg)]? | none => none,
    conv := fun i f => match d.convs[i]? with | some sp => s.cv[(sp, f)]? | none => none }

def St.cenv (s : St) : Rv.Cenv :=
  { known := fun n => s.known.contains (String.ofList n),
    inst := fun n a => (s.instT[(String.ofList n, a.map String.ofList)]?).getD false,
    multi := fun n => (s.known[String.ofList n]?).getD false }

def hexL (l : Rv.Str) : String := toHexS (String.ofList l)
def hexO : Option Rv.Str → String | none => "~" | some l => hexL l

def showRec (r : Rv.SegRec) : String :=
  let b := fun (x : Bool) => if x then "1" else "0"
  s!"{hexL r.raw} {b r.isVar}{b r.isComplex}{b r.cpc} {hexL r.shape} {if r.isComplex then hexL (Rv.patText r.raw) else "~"} " ++
  "F[" ++ ",".intercalate (r.fields.map hexL) ++ "] C[" ++
  ",".intercalate (r.convs.map fun c => s!"{hexL c.1}:{hexL c.2.1}:{hexO c.2.2}") ++ "]"

def showRej : Rv.Rej → String
  | .whitespace => "whitespace" | .identifier => "identifier" | .duplicate => "duplicate"
  | .missingConv => "missing_conv" | .unknownConv => "unknown_conv" | .badConvArgs => "bad_conv_args"

partial def parsePairs : List String → Dict
  | k :: v :: t => (unhex k, unhex v) :: parsePairs t
  | _ => []

def showDict (d : Dict) : String :=
  let sorted := d.toArray.qsort (fun a b => a.1 < b.1) |>.toList
  ",".intercalate (sorted.map fun kv => toHexS kv.1 ++ "=" ++ toHexS kv.2)
def showRes (rvs : Array Nat) : Option (Nat × Dict) → String
  | none => "none"
  | some (i, d) => match rvs[i]? with
    | some r => s!"{r}:{showDict d}"
    | none => s!"BAD-RV-INDEX-{i}"
def showOut (rvs : Array Nat) : Out → String
  | .ret r => showRes rvs r
  | .fall _ => "FALL"
  | .stuck w => "STUCK:" ++ w

def step (s : St) (line : String) : St × String :=
  match line.trimAscii.toString.splitOn " " with
  | ["new"] => ({}, "ok")
  | "seg" :: id :: attrs :: raw :: kind =>
    match parseSeg id.toNat! attrs, parseKind kind with
    | some sg, some (k, specs) =>
      let d : SegDef := { seg := sg, raw := unhex raw, kind := k, specs := specs }
      ({ s with defs := s.defs.insert id.toNat! d, byRaw := s.byRaw.insert d.raw specs }, "ok")
    | _, _ => (s, "bad-op")
  | "add" :: route :: ids :: fl =>
    let path := (ids.splitOn ";").filterMap fun i => (s.defs[i.toNat!]?).map (·.seg)
    let (r', ok) := Rl.addSegs s.router route.toNat! path (fl == ["1"])
    let cur := s.derive r'.roots
    -- the cache follows `compiled`: an accepted call either recompiled (flag) or reset it; a rejected call left it alone
    let snapD := if ok then r'.compiled.map (fun _ => cur) else s.snapD
    ({ s with router := r', cur := cur, snapD := snapD }, (if ok then "ok " else "rej ") ++ " ".intercalate (r'.roots.map dump))
  | ["known", name, m] => ({ s with known := s.known.insert (unhex name) (m == "1") }, "ok")
  | ["inst", name, args, v] =>
    ({ s with instT := s.instT.insert (unhex name, if args == "~" then none else some (unhex args)) (v == "1") }, "ok")
  | ["validate", t] =>
    match Rv.validate s.cenv (unhex t).toList with
    | .error k => (s, "rej " ++ showRej k)
    | .ok recs => (s, "ok " ++ " | ".intercalate (recs.map showRec))
  | ["addfresh", t] =>       -- the verdict of `add_route(t)` on an EMPTY router (validation ; insert)
    match (Rv.addRoute s.cenv 0 (unhex t).toList []).2 with
    | .ok => (s, "ok")
    | .rej k => (s, "rej " ++ showRej k)
    | .rejInsert => (s, "rej insert")
  | ["kwlist"] => (s, " ".intercalate (Rv.kwlist.map String.ofList))
  | ["wstable"] =>
    (s, " ".intercalate (((List.range 0x110000).filter fun n => (n < 0xD800 || n > 0xDFFF) && Rv.isSpace (Char.ofNat n)).map toString))
  | "pat" :: text :: seg :: t => ({ s with pm := s.pm.insert (unhex text, unhex seg) (parsePairs t) }, "ok")
  | ["conv", sp, f, v] => ({ s with cv := s.cv.insert (sp.toNat!, unhex f) (unhex v) }, "ok")
  | "find" :: segs =>
    let path := segs.map unhex
    -- `tb snapshot`, served from the cache kept in step with `router.compiled`
    let snapD := s.snapD.getD s.cur
    let (r', out) := Rl.find s.kinds (fun _ => s.tables snapD) s.router path
    ({ s with router := r', snapD := some snapD },
     "E " ++ showOut snapD.rvs out ++ " S " ++ showRes s.cur.rvs (runSpec (s.tables s.cur) s.cur.nodes path))
  | ["src"] => (s, toHexS (finderSrc s.cur.nodes))
  | _ => (s, "bad-op")

partial def loop (h : IO.FS.Stream) (s : St) : IO Unit := do
  let line ← h.getLine
  if line.isEmpty then return ()
  let (s', out) := step s line
  IO.println out
  loop h s'
def main : IO Unit := do loop (← IO.getStdin) {}

import FalconModel.RouterHist
import Std.Data.HashMap
/-! C01 line-protocol driver: a whole router history.  `add` runs `Ri.insert true` (the repaired `add_route`), `find` runs
    `Rt.runFinder` (codegen + big-step semantics of the generated code) and `Rt.runSpec` (the depth-first walk) on
    `Rh.toNodes` of that tree.  `re` / converter behaviour is table-fed, keyed by pattern text / converter spec id, so
    nothing of the real router's private state enters the model. -/
open Rt Ri Rh

def hv (c : Char) : Nat := if c.isDigit then c.toNat - 48 else c.toNat - 87
def unhex (s : String) : String :=
  let rec go : List Char → List UInt8
    | a :: b :: r => (hv a * 16 + hv b).toUInt8 :: go r
    | _ => []
  if s == "-" then "" else (String.fromUTF8? (ByteArray.mk (go s.toList).toArray)).getD "?"
def hexD (n : Nat) : Char := if n < 10 then Char.ofNat (48+n) else Char.ofNat (87+n)
def toHexS (s : String) : String := if s.isEmpty then "-" else String.ofList (s.toUTF8.toList.flatMap fun b => [hexD (b.toNat/16), hexD (b.toNat%16)])

structure SegDef where
  seg : Seg
  raw : String
  kind : Kind
  specs : List Nat          -- converter spec ids, in the order of the node's converter uses

structure St where
  roots : List Tree := []
  defs : Std.HashMap Nat SegDef := {}
  byRaw : Std.HashMap String (List Nat) := {}
  pm : Std.HashMap (String × String) Dict := {}
  cv : Std.HashMap (Nat × String) String := {}
  -- derived from `roots` after every `add`
  nodes : List Node := []
  pats : Array String := #[]
  convs : Array Nat := #[]
  rvs : Array Nat := #[]

partial def parseConvs : Nat → List String → List ConvUse × List Nat
  | n+1, f :: m :: sp :: t => let (cs, ss) := parseConvs n t; ({ field := unhex f, multi := m == "1" } :: cs, sp.toNat! :: ss)
  | _, _ => ([], [])

def parseKind : List String → Option (Kind × List Nat)
  | ["L"] => some (.lit, [])
  | ["S", name, "0"] => some (.simple (unhex name) none, [])
  | ["S", name, "1", m, sp] => some (.simple (unhex name) (some { field := unhex name, multi := m == "1" }), [sp.toNat!])
  | "C" :: pat :: nf :: nc :: t =>
    let (cs, ss) := parseConvs nc.toNat! t
    some (.complex (unhex pat) cs nf.toNat!, ss)
  | _ => none

def parseSeg (id : Nat) (t : String) : Option Seg :=
  match (t.splitOn ",").map (·.toNat!) with
  | [v, c, sh, cpc] => some { raw := id, isVar := v == 1, isComplex := c == 1, shape := sh, cpc := cpc == 1 }
  | _ => none

partial def dump : Tree → String
  | .node s r ch => s!"({s.raw} {if r.isSome then 1 else 0} [{" ".intercalate (ch.map dump)}])"

/-- compile order = pre-order of the tree with every sibling list sorted literal < complex < simple (stable) -/
partial def patsOf (ns : List Node) : List String :=
  (sortNodes ns).flatMap fun n => (match n.kind with | .complex t _ _ => [t] | _ => []) ++ patsOf n.children
partial def convsOf (sp : String → List Nat) (ns : List Node) : List Nat :=
  (sortNodes ns).flatMap fun n => (match n.kind with | .lit => [] | _ => sp n.raw) ++ convsOf sp n.children
partial def rvsOf (key : Tree → Nat) (ts : List Tree) : List Nat :=
  (ts.filter (key · == 0) ++ ts.filter (key · == 1) ++ ts.filter (key · == 2)).flatMap fun
    | .node _ r ch => r.toList ++ rvsOf key ch

def St.kinds (s : St) : Nat → String × Kind := fun id =>
  match s.defs[id]? with
  | some d => (d.raw, d.kind)
  | none => ("?", .lit)

def St.refresh (s : St) : St :=
  let k := s.kinds
  let nodes := toNodes k s.roots
  let key : Tree → Nat := fun t => match (k t.seg.raw).2 with | .lit => 0 | .complex .. => 1 | .simple .. => 2
  { s with nodes := nodes, pats := (patsOf nodes).toArray,
           convs := (convsOf (fun r => (s.byRaw[r]?).getD []) nodes).toArray,
           rvs := (rvsOf key s.roots).toArray }

def St.tables (s : St) : Tables :=
  { pmatch := fun i seg => match s.pats[i]? with | some t => s.pm[(t, seg)]? | none => none,
    conv := fun i f => match s.convs[i]? with | some sp => s.cv[(sp, f)]? | none => none }

partial def parsePairs : List String → Dict
  | k :: v :: t => (unhex k, unhex v) :: parsePairs t
  | _ => []

def showDict (d : Dict) : String :=
  let sorted := d.toArray.qsort (fun a b => a.1 < b.1) |>.toList
  ",".intercalate (sorted.map fun kv => toHexS kv.1 ++ "=" ++ toHexS kv.2)
def showRes (rvs : Array Nat) : Option (Nat × Dict) → String
  | none => "none"
  | some (i, d) => match rvs[i]? with
    | some r => s!"{r}:{showDict d}"
    | none => s!"BAD-RV-INDEX-{i}"
def showOut (rvs : Array Nat) : Out → String
  | .ret r => showRes rvs r
  | .fall _ => "FALL"
  | .stuck w => "STUCK:" ++ w

def step (s : St) (line : String) : St × String :=
  match line.trimAscii.toString.splitOn " " with
  | ["new"] => ({}, "ok")
  | "seg" :: id :: attrs :: raw :: kind =>
    match parseSeg id.toNat! attrs, parseKind kind with
    | some sg, some (k, specs) =>
      let d : SegDef := { seg := sg, raw := unhex raw, kind := k, specs := specs }
      ({ s with defs := s.defs.insert id.toNat! d, byRaw := s.byRaw.insert d.raw specs }, "ok")
    | _, _ => (s, "bad-op")
  | ["add", route, ids] =>
    let path := (ids.splitOn ";").filterMap fun i => (s.defs[i.toNat!]?).map (·.seg)
    let (roots', ok) := insert true route.toNat! path s.roots
    let s' := ({ s with roots := roots' } : St).refresh
    (s', (if ok then "ok " else "rej ") ++ " ".intercalate (roots'.map dump))
  | "pat" :: text :: seg :: t => ({ s with pm := s.pm.insert (unhex text, unhex seg) (parsePairs t) }, "ok")
  | ["conv", sp, f, v] => ({ s with cv := s.cv.insert (sp.toNat!, unhex f) (unhex v) }, "ok")
  | "find" :: segs =>
    let path := segs.map unhex
    (s, "E " ++ showOut s.rvs (runFinder s.tables s.nodes path) ++ " S " ++ showRes s.rvs (runSpec s.tables s.nodes path))
  | ["src"] => (s, toHexS (finderSrc s.nodes))
  | _ => (s, "bad-op")

partial def loop (h : IO.FS.Stream) (s : St) : IO Unit := do
  let line ← h.getLine
  if line.isEmpty then return ()
  let (s', out) := step s line
  IO.println out
  loop h s'
def main : IO Unit := do loop (← IO.getStdin) {}

import FalconModel.RouterInsert
open Ri

partial def dump : Tree → String
  | .node s r ch => s!"({s.raw} {if r.isSome then 1 else 0} [{" ".intercalate (ch.map dump)}])"

def parseSeg (t : String) : Option Seg :=
  match (t.splitOn ",").map (·.toNat!) with
  | [raw, v, c, sh, cpc] => some { raw := raw, isVar := v == 1, isComplex := c == 1, shape := sh, cpc := cpc == 1 }
  | _ => none

def step (fixed : Bool) (roots : List Tree) (line : String) : List Tree × String :=
  match line.trimAscii.toString.splitOn " " with
  | ["new"] => ([], "ok")
  | ["add", route, segs] =>
    let path := (segs.splitOn ";").filterMap parseSeg
    let (roots', ok) := insert fixed route.toNat! path roots
    (roots', (if ok then "ok " else "rej ") ++ " ".intercalate (roots'.map dump))
  | _ => (roots, "bad-op")

partial def loop (h : IO.FS.Stream) (fixed : Bool) (roots : List Tree) : IO Unit := do
  let line ← h.getLine
  if line.isEmpty then return ()
  let (r', out) := step fixed roots line
  IO.println out
  loop h fixed r'
def main (args : List String) : IO Unit := do loop (← IO.getStdin) (args == ["fixed"]) []

import FalconModel.ReqMemo
open Rm

/-! Line-protocol driver for the memoized request accessors (C06, model `Rm`, FalconModel/ReqMemo.lean).

      m st=w|a none=-|name,name,…  h=name,name,…
          one request object of falcon.Request (w) / falcon.asgi.Request (a); `none` lists the accessors whose computed value
          is None, every other accessor computes a proper value of its own; `h` is the history of reads (public attribute names;
          `cookies_raw` is not readable).  Reply: one token per read, comma separated:
            `=`  the value this accessor computes      `~`  None      `U`  the _UNSET sentinel      `#name`  the value of another accessor
          or `bad-attr:<name>` for a name the model does not know. -/

def names : List (String × Attr) :=
  [("method", .method), ("path", .path), ("query_string", .queryString), ("params", .params), ("content_type", .contentType),
   ("content_length", .contentLength), ("host", .host), ("port", .port), ("netloc", .netloc), ("scheme", .scheme),
   ("forwarded_scheme", .forwardedScheme), ("forwarded_host", .forwardedHost), ("subdomain", .subdomain), ("root_path", .rootPath),
   ("uri", .uri), ("relative_uri", .relativeUri), ("prefix", .prefix), ("forwarded_uri", .forwardedUri),
   ("forwarded_prefix", .forwardedPrefix), ("forwarded", .forwarded), ("accept", .accept), ("user_agent", .userAgent), ("auth", .auth),
   ("expect", .expect), ("if_range", .ifRange), ("referer", .referer), ("date", .date), ("if_match", .ifMatch),
   ("if_none_match", .ifNoneMatch), ("if_modified_since", .ifModifiedSince), ("if_unmodified_since", .ifUnmodifiedSince),
   ("range", .range), ("range_unit", .rangeUnit), ("cookies", .cookies), ("access_route", .accessRoute), ("remote_addr", .remoteAddr),
   ("headers_lower", .headersLower), ("headers", .headers), ("client_accepts_json", .clientAcceptsJson),
   ("client_accepts_xml", .clientAcceptsXml), ("client_accepts_msgpack", .clientAcceptsMsgpack), ("uri_template", .uriTemplate),
   ("is_websocket", .isWebsocket), ("get_cookie_values", .getCookieValues), ("app", .app)]

def kv (ws : List String) (k : String) : String :=
  match ws.find? (·.startsWith (k ++ "=")) with
  | some s => (s.drop (k.length + 1)).toString
  | none => ""

def idx (a : Attr) : Nat := Attr.all.idxOf a
def nameOf (n : Nat) : String :=
  match names.find? (fun p => idx p.2 == n) with
  | some p => p.1
  | none => "?"

def parseList (s : String) : Except String (List Attr) :=
  if s == "-" || s == "" then .ok [] else
    (s.splitOn ",").mapM fun n => match names.lookup n with
      | some a => .ok a
      | none => .error n

def runCase (ws : List String) : String :=
  match parseList (kv ws "none"), parseList (kv ws "h") with
  | .error n, _ => "bad-attr:" ++ n
  | _, .error n => "bad-attr:" ++ n
  | .ok nones, .ok h =>
    let pure : Attr → Val := fun a => if nones.contains a then .none else .val (idx a)
    let T := if kv ws "st" == "a" then asgiTable else wsgiTable
    let out := run T pure depth h initSt
    ",".intercalate ((h.zip out).map fun (a, v) => match v with
      | .unset => "U"
      | .none => "~"
      | .val n => if n == idx a then "=" else "#" ++ nameOf n)

partial def loop (h : IO.FS.Stream) : IO Unit := do
  let line ← h.getLine
  if line.isEmpty then return ()
  match line.trimAscii.toString.splitOn " " with
  | "m" :: ws => IO.println (runCase ws)
  | _ => IO.println "bad-line"
  loop h
def main : IO Unit := do loop (← IO.getStdin)

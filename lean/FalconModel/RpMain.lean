import FalconModel.RespProps
open Rp
open Us (Str)

/-! Line-protocol driver for the typed header properties / append_link model (C15, `Rp`).
    A str is its code points in hex joined by '.', `-` is the empty str, `N` is None.
      tables
      loc C | etag C | ascii C | secure NFKD C | cd (0|1) NFKD C | list L | range ITEMS | linkv <link args>
      new | assign PROP VAL NFKD | get PROP | del PROP | alink <link args> | getk C
    L      = `_` (empty list) or str,str,…          ITEMS = item,item,…   item = i<int> | s<str>
    VAL    = N | t<str> | i<int> | s<str> (item) | l<L> | r<ITEMS>
    link args = TARGET REL TITLE LANG TEXT ANCHOR HREFLANG TYPE CROSS EXT   (TITLE … CROSS: N or str; LANG = N → no title_star;
                HREFLANG = N | o<str> | m<L>; EXT = N | `_` | p:v,p:v,…) -/

def hexVal (c : Char) : Nat :=
  if '0' ≤ c ∧ c ≤ '9' then c.toNat - 48 else if 'a' ≤ c ∧ c ≤ 'f' then c.toNat - 87 else if 'A' ≤ c ∧ c ≤ 'F' then c.toNat - 55 else 0
def hexNat (s : String) : Nat := s.toList.foldl (fun acc c => acc * 16 + hexVal c) 0
def parseStr (s : String) : Str := if s == "-" then [] else (s.splitOn ".").map hexNat
def parseOpt (s : String) : Option Str := if s == "N" then none else some (parseStr s)
def hexOf (n : Nat) : String := String.ofList (Nat.toDigits 16 n)
def showStr (s : Str) : String := if s.isEmpty then "-" else ".".intercalate (s.map hexOf)
def parseList (s : String) : List Str := if s == "_" then [] else (s.splitOn ",").map parseStr
def parseItem (s : String) : Item :=
  match s.toList with
  | 'i' :: '-' :: r => .int (-(String.ofList r).toNat!)
  | 'i' :: r => .int (String.ofList r).toNat!
  | _ :: r => .str (parseStr (String.ofList r))
  | [] => .str []
def parseItems (s : String) : List Item := if s == "_" then [] else (s.splitOn ",").map parseItem
def parseVal (s : String) : Option Val :=
  match s.toList with
  | ['N'] => none
  | 't' :: r => some (.text (parseStr (String.ofList r)))
  | 'l' :: r => some (.list (parseList (String.ofList r)))
  | 'r' :: r => some (.tuple (parseItems (String.ofList r)))
  | _ => some (.item (parseItem s))
def parseProp (s : String) : Option HProp :=
  match s with
  | "cache_control" => some .cacheControl | "content_location" => some .contentLocation | "content_length" => some .contentLength
  | "content_range" => some .contentRange | "content_type" => some .contentType | "downloadable_as" => some .downloadableAs
  | "viewable_as" => some .viewableAs | "etag" => some .etag | "location" => some .location | "retry_after" => some .retryAfter
  | "vary" => some .vary | "accept_ranges" => some .acceptRanges | _ => none
def parseHreflang (s : String) : Option Hreflang :=
  match s.toList with
  | ['N'] => none
  | 'o' :: r => some (.one (parseStr (String.ofList r)))
  | _ :: r => some (.many (parseList (String.ofList r)))
  | [] => none
def parseExtL (s : String) : Option (List (Str × Str)) :=
  if s == "N" then none else if s == "_" then some []
  else some ((s.splitOn ",").filterMap fun it => match it.splitOn ":" with | [p, v] => some (parseStr p, parseStr v) | _ => none)
def parseLink : List String → Option LinkArgs
  | [t, rel, title, lang, text, anchor, hl, ty, cross, ext] =>
    some { target := parseStr t, rel := parseStr rel, title := parseOpt title,
           titleStar := if lang == "N" then none else some (parseStr lang, parseStr text),
           anchor := parseOpt anchor, hreflang := parseHreflang hl, typeHint := parseOpt ty, crossorigin := parseOpt cross,
           linkExtension := parseExtL ext }
  | _ => none

def showOpt (e : String) : Option Str → String
  | some s => "val " ++ showStr s
  | none => "err " ++ e
def showS (s : String) : String := showStr (s.toList.map Char.toNat)

def spaces : List Nat := (List.range 0x3100).filter isSpace     -- everything `isSpace` accepts lies below 0x3100
def safes : List Nat := (List.range 256).filter (fun c => secureCore [97, c] == [97, c])   -- observable: kept unchanged

def step (r : Hd.Resp String) (line : String) : Hd.Resp String × String :=
  match line.trimAscii.toString.splitOn " " with
  | ["tables"] => (r, showStr spaces ++ " " ++ showStr safes ++ " " ++ toString (((List.range 0x110000).filter isSpace).length))
  | ["loc", c] => (r, "val " ++ showStr (Rp.location (parseStr c)))
  | ["etag", c] => (r, showOpt "IndexError" (formatEtag (parseStr c)))
  | ["ascii", c] => (r, if isAsciiEncodable (parseStr c) then "1" else "0")
  | ["secure", n, c] => (r, showOpt "ValueError" (secureFilename (fun _ => parseStr n) (parseStr c)))
  | ["cd", d, n, c] => (r, showOpt "ValueError" (formatContentDisposition (fun _ => parseStr n) (if d == "0" then sAttachment else sInline) (parseStr c)))
  | ["list", l] => (r, "val " ++ showStr (formatList (parseList l)))
  | ["range", its] => (r, showOpt "IndexError" (formatRange (parseItems its)))
  | "linkv" :: args =>
    match parseLink args with
    | some a => (r, showOpt "ValueError" (linkValue a))
    | none => (r, "bad-op")
  | ["new"] => ({}, "ok")
  | ["assign", p, v, n] =>
    match parseProp p with
    | some p => match assign (fun _ => parseStr n) p r (parseVal v) with
      | some r' => (r', "ok")
      | none => (r, "err")
    | none => (r, "bad-op")
  | ["get", p] =>
    match parseProp p with
    | some p => (r, match propGet p.key r with | some v => "val " ++ showS v | none => "none")
    | none => (r, "bad-op")
  | ["del", p] =>
    match parseProp p with
    | some p => match propDelete p.key r with
      | some r' => (r', "ok")
      | none => (r, "err KeyError")
    | none => (r, "bad-op")
  | "alink" :: args =>
    match parseLink args with
    | some a => match appendLink "link" r a with
      | some r' => (r', "ok")
      | none => (r, "err ValueError")
    | none => (r, "bad-op")
  | ["getk", k] => (r, match propGet (toS (parseStr k)) r with | some v => "val " ++ showS v | none => "none")
  | _ => (r, "bad-op")

partial def loop (h : IO.FS.Stream) (r : Hd.Resp String) : IO Unit := do
  let line ← h.getLine
  if line.isEmpty then return ()
  let (r', out) := step r line
  IO.println out
  loop h r'
def main : IO Unit := do loop (← IO.getStdin) {}

import FalconModel.RouterCx
open Rt

def hv (c : Char) : Nat := if c.isDigit then c.toNat - 48 else c.toNat - 87
def unhex (s : String) : String :=
  let rec go : List Char → List UInt8
    | a :: b :: r => (hv a * 16 + hv b).toUInt8 :: go r
    | _ => []
  if s == "-" then "" else (String.fromUTF8? (ByteArray.mk (go s.toList).toArray)).getD "?"
def hexD (n : Nat) : Char := if n < 10 then Char.ofNat (48+n) else Char.ofNat (87+n)
def toHexS (s : String) : String := String.ofList (s.toUTF8.toList.flatMap fun b => [hexD (b.toNat/16), hexD (b.toNat%16)])

partial def parseConvs : Nat → List String → List ConvUse × List String
  | 0, t => ([], t)
  | n+1, f :: m :: t => let (cs, t) := parseConvs n t; ({ field := unhex f, multi := m == "1" } :: cs, t)
  | _, t => ([], t)

mutual
partial def parseNode : List String → Option (Node × List String)
  | "N" :: raw :: "L" :: t => parseTail (unhex raw) .lit t
  | "N" :: raw :: "S" :: name :: "0" :: t => parseTail (unhex raw) (.simple (unhex name) none) t
  | "N" :: raw :: "S" :: name :: "1" :: m :: t => parseTail (unhex raw) (.simple (unhex name) (some { field := unhex name, multi := m == "1" })) t
  | "N" :: raw :: "C" :: pat :: nf :: nc :: t =>
    let (cs, t) := parseConvs nc.toNat! t
    parseTail (unhex raw) (.complex (unhex pat) cs nf.toNat!) t
  | _ => none
partial def parseTail (raw : String) (k : Kind) : List String → Option (Node × List String)
  | hr :: n :: t => do
    let (ch, t) ← parseNodes n.toNat! t
    pure (.mk raw k (hr == "1") ch, t)
  | _ => none
partial def parseNodes : Nat → List String → Option (List Node × List String)
  | 0, t => some ([], t)
  | n+1, t => do
    let (x, t) ← parseNode t
    let (xs, t) ← parseNodes n t
    pure (x :: xs, t)
end

def step (line : String) : String :=
  match line.trimAscii.toString.splitOn " " with
  | "tree" :: n :: t =>
    match parseNodes n.toNat! t with
    | some (roots, _) => toHexS (finderSrc roots)
    | none => "bad-op"
  | _ => "bad-op"

partial def loop (h : IO.FS.Stream) : IO Unit := do
  let line ← h.getLine
  if line.isEmpty then return ()
  IO.println (step line)
  loop h
def main : IO Unit := do loop (← IO.getStdin)

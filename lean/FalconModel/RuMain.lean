import FalconModel.ReqDates
import FalconModel.ReqUrl
/-! line-protocol driver for the C09 date and URL-composition models (all strings hex-encoded Latin-1, `-` = empty, `none` = absent) -/
open Hp (Str)
def hexD (n : Nat) : Char := if n < 10 then Char.ofNat (48+n) else Char.ofNat (87+n)
def toHex (s : Str) : String := if s.isEmpty then "-" else String.ofList (s.flatMap fun c => [hexD (c.toNat/16), hexD (c.toNat%16)])
def hv (c : Char) : Nat := if c.isDigit then c.toNat - 48 else c.toNat - 87
def fromHex (s : String) : Str :=
  let rec go : List Char → Str
    | a :: b :: r => Char.ofNat (hv a * 16 + hv b) :: go r
    | _ => []
  if s == "-" then [] else go s.toList
def optS (s : String) : Option Str := if s == "none" then none else some (fromHex s)
def showO : Option Str → String | none => "none" | some s => toHex s
def showCivil (c : Cw.Civil) : String := s!"ok {c.year} {c.month} {c.day} {c.hour} {c.minute} {c.second}"
def showC : Option Cw.Civil → String
  | none => "bad"
  | some c => showCivil c
def showDateRes : Dt.DateRes → String
  | .absent => "absent"
  | .ok c => showCivil c
  | .missing400 => "missing"
  | .invalid400 => "invalid"
def tzNames (s : String) : List Str := if s == "-" then [] else (s.splitOn ",").map fromHex
def attrOf : String → Option Ru.Attr
  | "sc" => some .scheme | "nl" => some .netloc | "ho" => some .host | "rp" => some .rootPath | "sd" => some .subdomain
  | "fw" => some .forwarded | "fs" => some .forwardedScheme | "fh" => some .forwardedHost | "ru" => some .relativeUri
  | "pf" => some .pfx | "fp" => some .forwardedPrefix | "ur" => some .uri | "fu" => some .forwardedUri
  | _ => none
def showFwd (e : Fw.Fwd) : String := s!"{showO e.src}|{showO e.dest}|{showO e.host}|{showO e.scheme}"
def showVal : Ru.Val → String
  | .str s => toHex s
  | .host (.ok h) => toHex h
  | .host .bad400 => "bad"
  | .sub (.ok o) => showO o
  | .sub .bad400 => "bad"
  | .fwd none => "none"
  | .fwd (some l) => "els" ++ String.join (l.map fun e => "," ++ showFwd e)
def runAttrs (k : Ru.Core) (codes : String) : String :=
  let as := (codes.splitOn ",").filterMap attrOf
  " ".intercalate ((Ru.run k as {}).1.map showVal)
def step (line : String) : String :=
  match line.trimAscii.toString.splitOn " " with
  | ["date", tz, obs, v] => showC (Dt.httpDateToDt (tzNames tz) (obs == "1") (fromHex v))
  | ["fmtold", y, m, d, h, i, s] => toHex (Dt.dtToHttpUnpadded ⟨y.toNat!, m.toNat!, d.toNat!, h.toNat!, i.toNat!, s.toNat!⟩)
  | ["fmt", y, m, d, h, i, s] => toHex (Dt.dtToHttp ⟨y.toNat!, m.toNat!, d.toNat!, h.toNat!, i.toNat!, s.toNat!⟩)
  | ["reqdate", v] => showDateRes (Dt.reqDate (optS v))
  | ["getdt", tz, req, obs, v] => showDateRes (Dt.getHeaderAsDatetime (tzNames tz) (optS v) (req == "1") (obs == "1"))
  | ["rfc850", y, m, d, h, i, s] => toHex (Dt.rfc850Date ⟨y.toNat!, m.toNat!, d.toNat!, h.toNat!, i.toNat!, s.toNat!⟩)
  | ["asctime", y, m, d, h, i, s] => toHex (Dt.asctimeDate ⟨y.toNat!, m.toNat!, d.toNat!, h.toNat!, i.toNat!, s.toNat!⟩)
  | ["wsgi", sch, host, sname, sport, script, path, strip, qs, fwd, xfp, xfh, codes] =>
    let e : Ru.Wsgi :=
      { urlScheme := fromHex sch, httpHost := optS host, serverName := fromHex sname, serverPort := fromHex sport,
        scriptName := optS script, rawPath := fromHex path, stripSlash := strip == "1", queryString := optS qs, forwarded := optS fwd,
        xfProto := optS xfp, xfHost := optS xfh }
    runAttrs e.core codes
  | ["asgi", sch, ws, host, sname, sport, root, path, strip, qs, fwd, xfp, xfh, codes] =>
    let a : Ru.Asgi :=
      { schemeOpt := optS sch, websocket := ws == "1", hostHeader := optS host,
        server := (if sname == "none" then none else some (fromHex sname, sport.toInt!)), rootPathOpt := optS root, rawPath := fromHex path,
        stripSlash := strip == "1", queryString := fromHex qs, forwarded := optS fwd, xfProto := optS xfp, xfHost := optS xfh }
    runAttrs a.core codes
  | ["wsgifw", sch, host, sname, sport, fwd, xfp, xfh, cell] =>   -- the class's own forwarded_scheme / forwarded_host transcriptions
    let e : Ru.Wsgi :=
      { urlScheme := fromHex sch, httpHost := optS host, serverName := fromHex sname, serverPort := fromHex sport,
        scriptName := none, rawPath := [], stripSlash := false, queryString := none, forwarded := optS fwd, xfProto := optS xfp, xfHost := optS xfh }
    let fl := if cell == "1" then e.forwarded.map Fw.parseForwarded else none
    toHex (e.forwardedSchemeOf fl) ++ " " ++ toHex (e.forwardedHostOf fl)
  | ["asgifw", sch, ws, host, sname, sport, fwd, xfp, xfh, cell] =>
    let a : Ru.Asgi :=
      { schemeOpt := optS sch, websocket := ws == "1", hostHeader := optS host,
        server := (if sname == "none" then none else some (fromHex sname, sport.toInt!)), rootPathOpt := none, rawPath := [],
        stripSlash := false, queryString := [], forwarded := optS fwd, xfProto := optS xfp, xfHost := optS xfh }
    let fl := if cell == "1" then a.forwarded.map Fw.parseForwarded else none
    toHex (a.forwardedSchemeOf fl) ++ " " ++ toHex (a.forwardedHostOf fl)
  | _ => "bad-op"
partial def loop (h : IO.FS.Stream) : IO Unit := do
  let line ← h.getLine
  if line.isEmpty then return ()
  IO.println (step line)
  loop h
def main : IO Unit := do loop (← IO.getStdin)

import FalconModel.RouterExec
open Rt

def hv (c : Char) : Nat := if c.isDigit then c.toNat - 48 else c.toNat - 87
def unhex (s : String) : String :=
  let rec go : List Char → List UInt8
    | a :: b :: r => (hv a * 16 + hv b).toUInt8 :: go r
    | _ => []
  if s == "-" then "" else (String.fromUTF8? (ByteArray.mk (go s.toList).toArray)).getD "?"
def hexD (n : Nat) : Char := if n < 10 then Char.ofNat (48+n) else Char.ofNat (87+n)
def toHexS (s : String) : String := if s.isEmpty then "-" else String.ofList (s.toUTF8.toList.flatMap fun b => [hexD (b.toNat/16), hexD (b.toNat%16)])

partial def parseConvs : Nat → List String → List ConvUse × List String
  | 0, t => ([], t)
  | n+1, f :: m :: t => let (cs, t) := parseConvs n t; ({ field := unhex f, multi := m == "1" } :: cs, t)
  | _, t => ([], t)
mutual
partial def parseNode : List String → Option (Node × List String)
  | "N" :: raw :: "L" :: t => parseTail (unhex raw) .lit t
  | "N" :: raw :: "S" :: name :: "0" :: t => parseTail (unhex raw) (.simple (unhex name) none) t
  | "N" :: raw :: "S" :: name :: "1" :: m :: t => parseTail (unhex raw) (.simple (unhex name) (some { field := unhex name, multi := m == "1" })) t
  | "N" :: raw :: "C" :: pat :: nf :: nc :: t =>
    let (cs, t) := parseConvs nc.toNat! t
    parseTail (unhex raw) (.complex (unhex pat) cs nf.toNat!) t
  | _ => none
partial def parseTail (raw : String) (k : Kind) : List String → Option (Node × List String)
  | hr :: n :: t => do
    let (ch, t) ← parseNodes n.toNat! t
    pure (.mk raw k (hr == "1") ch, t)
  | _ => none
partial def parseNodes : Nat → List String → Option (List Node × List String)
  | 0, t => some ([], t)
  | n+1, t => do
    let (x, t) ← parseNode t
    let (xs, t) ← parseNodes n t
    pure (x :: xs, t)
end

structure St where
  roots : List Node := []
  pm : List ((Nat × String) × Dict) := []
  cv : List ((Nat × String) × String) := []

def St.tables (s : St) : Tables :=
  { pmatch := fun i seg => (s.pm.find? (fun e => e.1.1 == i && e.1.2 == seg)).map (·.2),
    conv := fun i f => (s.cv.find? (fun e => e.1.1 == i && e.1.2 == f)).map (·.2) }

partial def parsePairs : List String → Dict
  | k :: v :: t => (unhex k, unhex v) :: parsePairs t
  | _ => []

def showDict (d : Dict) : String :=
  let sorted := d.toArray.qsort (fun a b => a.1 < b.1) |>.toList
  ",".intercalate (sorted.map fun kv => toHexS kv.1 ++ "=" ++ toHexS kv.2)
def showRes : Option (Nat × Dict) → String
  | none => "none"
  | some (i, d) => s!"{i}:{showDict d}"
def showOut : Out → String
  | .ret r => showRes r
  | .fall _ => "FALL"
  | .stuck w => "STUCK:" ++ w

def step (s : St) (line : String) : St × String :=
  match line.trimAscii.toString.splitOn " " with
  | "tree" :: n :: t =>
    match parseNodes n.toNat! t with
    | some (roots, _) => ({ roots := roots }, "ok")
    | none => (s, "bad-op")
  | "pat" :: i :: seg :: t => ({ s with pm := ((i.toNat!, unhex seg), parsePairs t) :: s.pm }, "ok")
  | "conv" :: i :: f :: v :: _ => ({ s with cv := ((i.toNat!, unhex f), unhex v) :: s.cv }, "ok")
  | "find" :: segs =>
    let path := segs.map unhex
    (s, "E " ++ showOut (runFinder s.tables s.roots path) ++ " S " ++ showRes (runSpec s.tables s.roots path))
  | _ => (s, "bad-op")

partial def loop (h : IO.FS.Stream) (s : St) : IO Unit := do
  let line ← h.getLine
  if line.isEmpty then return ()
  let (s', out) := step s line
  IO.println out
  loop h s'
def main : IO Unit := do loop (← IO.getStdin) {}

import FalconModel.Sched
/-! scdriver — replay of a thread schedule through the C19(a) model.

    exec <locking 0|1> <table size n> <threads k> <schedule: comma list of thread ids | ->
      -> t0=<outcome> .. t(k-1)=<outcome> ncomp=<compiles started> ev=<events> paths=<p0,..> locks=1:1 agree=<1|0>
    outcome = done:<finder version>:<tables version>:<fill> | stuck | at:<pc>
    events  = S<thread>:<v> (compile v started: tables reset) / P<thread>:<v> (finder v published), in order, or -
    path    = d (called a compiled finder directly) | c (went through the stub and compiled) | w (went through the stub,
              found the router compiled after acquiring the lock) | - (not that far yet)
    locks   = <lock objects of the router>:<of them existing before the first request>; in the model always 1:1 (`Sh.lock` is ONE
              lock that is part of the initial state - see `Ll.lazy_lock_witness` for what happens when it is created on first use)
    agree   = the step-by-step replay ends in the same state as `St.exec` (the function the theorems are about)        -/
open Sc

def pcName : Pc → String
  | .start => "start" | .haveFind _ => "haveFind" | .call _ _ _ => "call" | .waitLock => "waitLock"
  | .locked => "locked" | .compiling _ _ => "compiling" | .publish _ => "publish" | .unlock => "unlock"
  | .reFind => "reFind" | .reTables _ => "reTables" | .done _ _ _ => "done" | .stuck => "stuck"

def outcome : Pc → String
  | .done v tv fl => s!"done:{v}:{tv}:{fl}"
  | .stuck => "stuck"
  | pc => "at:" ++ pcName pc

structure Log where
  ev : List String := []
  stub : List Nat := []       -- threads that entered `_compile_and_find`
  comp : List Nat := []       -- threads that ran `_compile`
  direct : List Nat := []     -- threads that called a compiled finder from `find`

def replay (locking : Bool) (n : Nat) : St → Log → List Nat → St × Log
  | s, lg, [] => (s, lg)
  | s, lg, i :: rest =>
    let before := s.pcs i
    let s' := s.run locking n i
    let after := s'.pcs i
    let lg := match before, after with
      | .locked, .compiling v _ => { lg with ev := lg.ev ++ [s!"S{i}:{v}"], comp := i :: lg.comp }
      | .publish v, .unlock => { lg with ev := lg.ev ++ [s!"P{i}:{v}"] }
      | .call none _ _, .waitLock => { lg with stub := i :: lg.stub }
      | .call (some _) _ _, .done _ _ _ => { lg with direct := i :: lg.direct }
      | _, _ => lg
    replay locking n s' lg rest

def pathOf (lg : Log) (i : Nat) : String :=
  if lg.comp.contains i then "c" else if lg.stub.contains i then "w" else if lg.direct.contains i then "d" else "-"

def step (line : String) : String :=
  match line.trimAscii.toString.splitOn " " with
  | ["exec", l, n, k, sch] =>
    let locking := l == "1"
    let n := n.toNat!
    let k := k.toNat!
    let sched := if sch == "-" then [] else (sch.splitOn ",").map String.toNat!
    let (s, lg) := replay locking n {} {} sched
    let s2 := St.exec locking n {} sched
    let ths := List.range k
    let agree := ths.all (fun i => s.pcs i == s2.pcs i) && s.sh == s2.sh
    " ".intercalate (ths.map fun i => s!"t{i}=" ++ outcome (s2.pcs i)) ++ s!" ncomp={s2.sh.ncomp} ev=" ++
      (if lg.ev.isEmpty then "-" else ",".intercalate lg.ev) ++ " paths=" ++ ",".intercalate (ths.map (pathOf lg)) ++
      " locks=1:1 agree=" ++ (if agree then "1" else "0")
  | _ => "bad-op"

partial def loop (h : IO.FS.Stream) : IO Unit := do
  let line ← h.getLine
  if line.isEmpty then return ()
  IO.println (step line)
  loop h
def main : IO Unit := do loop (← IO.getStdin)

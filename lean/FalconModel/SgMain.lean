import FalconModel.StreamGlue
import FalconModel.WsgiStreamFixed
/-! C07 glue driver: the request objects of `FalconModel.StreamGlue` (header text → bound → stream), operations performed through the
    request (`req.bounded_stream.<op>` / `req.stream.<op>`), replies in the formats of `w7fdriver` / `asfdriver`. -/
open Sg
def hexD (n : Nat) : Char := if n < 10 then Char.ofNat (48+n) else Char.ofNat (87+n)
def toHex (bs : List UInt8) : String := if bs.isEmpty then "-" else String.ofList (bs.flatMap fun b => [hexD (b.toNat/16), hexD (b.toNat%16)])
def hv (c : Char) : Nat := if c.isDigit then c.toNat - 48 else c.toNat - 87
def fromHex (s : String) : List UInt8 :=
  let rec go : List Char → List UInt8
    | a :: b :: r => (hv a * 16 + hv b).toUInt8 :: go r
    | _ => []
  if s == "-" then [] else go s.toList
/-- a Latin-1 `str` / a byte string as code points -/
def strOfHex (s : String) : Hp.Str := (fromHex s).map fun b => Char.ofNat b.toNat
/-- `-` or comma-separated `keyhex=valhex` -/
def pairs (s : String) : List (Hp.Str × Hp.Str) :=
  if s == "-" then [] else (s.splitOn ",").filterMap fun e =>
    match e.splitOn "=" with
    | [k, v] => some (strOfHex k, strOfHex v)
    | _ => none
def optInt (s : String) : Option Int := if s == "none" then none else s.toInt?
def parseEv (t : String) : AsF.Event :=
  match t.splitOn ":" with
  | ["D"] => .disconnect
  | ["R", b, m] =>
    .request (if b == "~" then none else some (fromHex b)) (if m == "t" then some true else if m == "f" then some false else none)
  | _ => .disconnect

structure St where
  asgi : Bool := false
  w : WReq := { env := [], input := { data := [] } }
  a : AReq := { headers := [], isWebsocket := false, firstEvent := none, events := [] }

def wst (s : Ws7.S) : String := s!" rem={s.remaining} eof={Ws7F.eof s} asked={s.raw.asked}"
def ast (s : AsF.S) : String := s!" tell={s.pos} eof={AsF.eof s} awaited={s.awaited}"
def showOut (o : AsF.Out) (s : AsF.S) : String :=
  match o with
  | .data b => "data " ++ toHex b ++ ast s
  | .closedErr => "closedErr" ++ ast s
  | .notAllowed => "notAllowed" ++ ast s
  | .blocked => "BLOCKED"
  | .unit => "unit" ++ ast s

/-- one WSGI operation through `req.bounded_stream`; the reply is rendered from the result and the stream state afterwards -/
def wop {α : Type} (st : St) (f : Ws7.S → α × Ws7.S) (render : α → String) : St × String :=
  let (a, r) := withBounded st.w f
  let (s, _) := boundedStream r
  ({ st with w := r }, render a ++ wst s)

/-- one ASGI operation through `req.stream` -/
def aop (st : St) (f : AsF.S → AsF.Out × AsF.S) : St × String :=
  let (res, r) := withStream st.a f
  match res with
  | some o =>
    match stream r with
    | (.stream s, _) => ({ st with a := r }, showOut o s)
    | _ => ({ st with a := r }, "bad-state")
  | none =>
    match (stream st.a).1 with
    | .unsupported => ({ st with a := r }, "unsupported")
    | .invalidHeader => ({ st with a := r }, "invalidHeader")
    | .stream _ => ({ st with a := r }, "bad-state")

def step (st : St) (line : String) : St × String :=
  match line.trimAscii.toString.splitOn " " with
  | ["wreq", env, dat, shorts] =>
    let sh := if shorts == "-" then [] else (shorts.splitOn ",").map (·.toNat!)
    ({ st with asgi := false, w := { env := pairs env, input := { data := fromHex dat, shorts := sh } } }, "ok")
  | "areq" :: ws :: first :: hdrs :: evs =>
    let r := mkAReq (pairs hdrs) (ws == "1") (if first == "none" then none else some (parseEv first)) (evs.filter (· != "") |>.map parseEv)
    ({ st with asgi := true, a := r }, "ok")
  | ["bound"] =>
    let (s, r) := boundedStream st.w
    ({ st with w := r }, s!"bound {s.remaining}")
  | ["stream"] =>
    match stream st.a with
    | (.stream s, r) => ({ st with a := r }, s!"stream rem={s.remaining} buf={toHex s.buffer} tell={s.pos}")
    | (.invalidHeader, r) => ({ st with a := r }, "invalidHeader")
    | (.unsupported, r) => ({ st with a := r }, "unsupported")
  | ["read", n] =>
    if st.asgi then aop st (fun s => AsF.read s (optInt n))
    else wop st (fun s => Ws7F.read s (optInt n)) (fun d => "data " ++ toHex d)
  | ["readline", n] => wop st (fun s => Ws7F.readline s (optInt n)) (fun d => "data " ++ toHex d)
  | ["readlines", n] => wop st (fun s => Ws7F.readlines s (optInt n)) (fun d => "lines " ++ " ".intercalate (d.map toHex))
  | ["next"] => wop st (fun s => Ws7F.next s) (fun d => match d with | some b => "data " ++ toHex b | none => "stop")
  | ["exhaust", c] => wop st (fun s => ((), Ws7F.exhaust s c.toInt!)) (fun _ => "unit")
  | ["readall"] => aop st AsF.readall
  | ["iter", k] => aop st (fun s => AsF.iterate s k.toNat!)
  | ["exhaust"] => aop st AsF.exhaust
  | ["close"] => aop st (fun s => (.unit, AsF.close s))
  | _ => (st, "bad-op")

partial def loop (h : IO.FS.Stream) (st : St) : IO Unit := do
  let line ← h.getLine
  if line.isEmpty then return ()
  let (st', out) := step st line
  IO.println out
  loop h st'
def main : IO Unit := do loop (← IO.getStdin) {}

import FalconModel.SharedMemo
import FalconModel.LazyLock
/-! smdriver - the shared-memo model `Sm` against the real `functools.lru_cache`-wrapped functions of falcon, the
    header-name kwarg cache of `falcon/asgi/request.py`, and the state inventory of `harness/props/c19.py`.

    memo <policy lru|skip> <cap> <f: key=value;key=value | -> <events: c<i>:<key> | s<i> | x , comma separated | ->
      -> one token per completed call, in completion order: <thread>:<key>:<value>:h<hits>m<misses>z<size>   (or -)
         followed by  size=<n> hits=<h> misses=<m> agree=<1|0>
      `f` is the table of FRESH computations supplied by the harness (value of an uncached call); keys missing from it map to
      `?`.  A value starting with `!` is an exception: returned, never stored.  policy lru = `Sm.lruChoice` at every step
      (functools.lru_cache: keep on a concurrent insert, evict the least recently used entry); policy skip = choice 0
      (never evict: stop storing when full).  agree = the step-by-step replay ends in the same table/log/counters as
      `Sm.execLru` / `Sm.exec` (the functions the theorems are about).

    inv <file:qualname> <detector shape> <kind>
      -> ok:<theorem that covers the kind>   if the kind is one the model knows and the detector shape may have that kind
         unclassified:<file:qualname>        if the kind is UNLISTED / unknown
         shape-mismatch:<file:qualname>      if e.g. a memo decorator is classified as configuration
         stale:<file:qualname>               if the shape is GONE (a table row / per-request class no longer in the source)
      a shape with the form `lazy-init:lock` (a lock created on first use) is admitted by no proved kind: `Ll.lazy_lock_witness`
      a shape `closure-cell:bound:<values>|<uses>` (an object created once by a factory and kept in the closure of the function it returns):
        a fresh container/instance that the inner function raises, returns or yields - one object handed to every request, e.g. a
        pre-built exception - is admitted by no proved kind (only OTHER / per-request); one that is mutated is not read-only;
        `shared-raise:*` (raise of an object that exists before the request) likewise only OTHER / per-request

    lzlock <eager 0|1> <threads k> <schedule: comma list of thread ids | ->
      -> t0=<pc> .. t(k-1)=<pc> acq=<thread>:<lock>,.. nlocks=<locks created> maxcrit=<max. threads inside at once> agree=<1|0>
      replay of the lock-creation model `Ll` (LazyLock.lean): eager = the lock exists from the start (lock 1), lazy = the cell is empty.
      One schedule entry = one step of that thread: read the cell / Lock() / store / acquire (no move if taken) / release.  -/
open Sm

abbrev S := St String String

def lookupF (fs : List (String × String)) (k : String) : String :=
  match fs.find? (fun e => e.1 == k) with
  | some e => e.2
  | none => "?"

def storable (v : String) : Bool := !(v.startsWith "!")

def parseF (s : String) : List (String × String) :=
  if s == "-" then [] else
  (s.splitOn ";").filterMap fun p =>
    match p.splitOn "=" with
    | [k, v] => some (k, v)
    | _ => none

def parseEv (s : String) : Option (Act String) :=
  if s == "x" then some .clear
  else if s.startsWith "c" then
    match (s.drop 1).toString.splitOn ":" with
    | [i, k] => some (.call i.toNat! k)
    | _ => none
  else if s.startsWith "s" then some (.step (s.drop 1).toString.toNat! 0)
  else none

def choice (policy : String) (t : Table String String) : Nat := if policy == "lru" then lruChoice t else 0

/-- replay, emitting a snapshot for every call that completes -/
def replay (policy : String) (cap : Nat) (f : String → String) : S → List String → List (Act String) → S × List String
  | s, out, [] => (s, out)
  | s, out, a :: rest =>
    let a' := match a with | .step i _ => Act.step i (choice policy s.table) | x => x
    let s' := step cap f storable s a'
    let out := if s'.log.length > s.log.length then
        match s'.log.getLast? with
        | some (i, k, v) => out ++ [s!"{i}:{k}:{v}:h{s'.hits}m{s'.misses}z{s'.table.length}"]
        | none => out
      else out
    replay policy cap f s' out rest

/-- the same schedule with the choices made explicit, for `Sm.exec` -/
def explicit (policy : String) (cap : Nat) (f : String → String) : S → List (Act String) → List (Act String)
  | _, [] => []
  | s, a :: rest =>
    let a' := match a with | .step i _ => Act.step i (choice policy s.table) | x => x
    a' :: explicit policy cap f (step cap f storable s a') rest

def kindTheorem : String → Option String
  | "memo-of-pure-function-with-immutable-result" => some "Sm.memo_transparent"
  | "memo-of-pure-function-with-mutable-result" => some "Sm.memo_transparent+mutable-result-oracle"
  | "lazily-initialised-idempotent" => some "Lz.lazy_init_idempotent"
  | "lock-protected" => some "Sc.every_thread_gets_serial_result"
  | "configuration-written-before-serving-only" => some "assumption:no-configuration-during-traffic"
  | "per-request" => some "none-needed:not-shared"
  | "read-only" => some "none-needed:never-written"
  | "OTHER" => some "unproved:validated-by-interleaved-vs-serial-runs"
  | _ => none

/-- which kinds a detector shape may be given -/
def hasSub (s sub : String) : Bool := (s.splitOn sub).length > 1

def shapeAllows (shape kind : String) : Bool :=
  if (shape.splitOn "lazy-init:lock").length > 1 then kind == "OTHER"
  else if shape.startsWith "shared-raise:" then kind == "OTHER" || kind == "per-request"
  -- access shape: an ITERATION over the shared container outside a lock is not an action of Sm (get / capped insert) nor of Lz (test-and-set):
  -- no memo / lazy / read-only kind admits it (`locked-iter:` = lexically inside `with <lock>:` is not matched here)
  else if hasSub shape ",iter:" || hasSub shape ":iter:" then
    !(kind.startsWith "memo-of-pure-function") && kind != "lazily-initialised-idempotent" && kind != "read-only"
  else if shape.startsWith "closure-cell:" then
    match shape.splitOn "|" with
    | [vals, uses] =>
      let us := uses.splitOn "+"
      let fresh := hasSub vals "instance:" || hasSub vals "container"
      let handsOut := us.contains "raise" || us.contains "return" || us.contains "yield"
      if fresh && handsOut then kind == "OTHER" || kind == "per-request"
      else if us.contains "mutate" then kind != "read-only" && !(kind.startsWith "memo-of-pure-function")
      else !(kind.startsWith "memo-of-pure-function") && kind != "lazily-initialised-idempotent"
    | _ => false
  else if shape == "class:exists" then kind == "per-request"
  else if shape == "class-attr:class-literal" then kind == "read-only"
  else if shape.startsWith "memo:" then kind.startsWith "memo-of-pure-function" || kind == "per-request"
  else if shape.startsWith "default-arg:" then
    (if shape.endsWith "|read-only" then kind == "read-only" else kind.startsWith "memo-of-pure-function" || kind == "OTHER")
  else if shape == "module-state:bound:container" || (shape.startsWith "module-state:bound:instance:" && !(shape.contains ',')) then
    -- bound and never mutated syntactically
    kind == "read-only" || kind == "configuration-written-before-serving-only" || kind == "lock-protected" ||
      kind == "lazily-initialised-idempotent" || kind == "OTHER"
  else kind != "read-only" && !(kind.startsWith "memo-of-pure-function")

def llPc : Ll.Pc → String
  | .start => "start" | .sawNone => "sawNone" | .made l => s!"made:{l}" | .ref l => s!"ref:{l}" | .crit l => s!"crit:{l}" | .done => "done"

/-- step-by-step replay of `Ll`: (state, acquisitions in order, max. number of threads inside the critical section at once) -/
def llReplay (k : Nat) : Ll.St → List (Nat × Nat) → Nat → List Nat → Ll.St × List (Nat × Nat) × Nat
  | s, acq, mx, [] => (s, acq, mx)
  | s, acq, mx, i :: rest =>
    let s' := Ll.run s i
    let acq := match s.pcs i, s'.pcs i with
      | .ref _, .crit l => acq ++ [(i, l)]
      | _, _ => acq
    llReplay k s' acq (max mx (Ll.inCrit s' k)) rest

def handle (line : String) : String :=
  match line.trimAscii.toString.splitOn " " with
  | ["memo", policy, cap, fs, evs] =>
    let cap := cap.toNat!
    let ftab := parseF fs
    let f := lookupF ftab
    let acts := if evs == "-" then [] else (evs.splitOn ",").filterMap parseEv
    let (s, out) := replay policy cap f {} [] acts
    let s2 := if policy == "lru" then execLru cap f storable {} acts else exec cap f storable {} (explicit policy cap f {} acts)
    let s3 := exec cap f storable {} (explicit policy cap f {} acts)
    let same (a b : S) : Bool := a.table == b.table && a.log == b.log && a.hits == b.hits && a.misses == b.misses
    let agree := same s s2 && same s s3
    (if out.isEmpty then "-" else " ".intercalate out) ++
      s!" size={s.table.length} hits={s.hits} misses={s.misses} agree=" ++ (if agree then "1" else "0")
  | ["lzlock", eager, k, sch] =>
    let k := k.toNat!
    let sched := if sch == "-" then [] else (sch.splitOn ",").map String.toNat!
    let s0 : Ll.St := if eager == "1" then Ll.init 1 else {}
    let (s, acq, mx) := llReplay k s0 [] 0 sched
    let s2 := Ll.exec s0 sched
    let ths := List.range k
    let agree := ths.all (fun i => s.pcs i == s2.pcs i) && s.cell == s2.cell && s.nlocks == s2.nlocks && s.held == s2.held
    " ".intercalate (ths.map fun i => s!"t{i}=" ++ llPc (s2.pcs i)) ++ " acq=" ++
      (if acq.isEmpty then "-" else ",".intercalate (acq.map fun (i, l) => s!"{i}:{l}")) ++
      s!" nlocks={s2.nlocks} maxcrit={mx} agree=" ++ (if agree then "1" else "0")
  | ["inv", item, shape, kind] =>
    if shape == "GONE" then s!"stale:{item}" else
    match kindTheorem kind with
    | none => s!"unclassified:{item}"
    | some th => if shapeAllows shape kind then s!"ok:{th}" else s!"shape-mismatch:{item}"
  | _ => "bad-op"

partial def loop (h : IO.FS.Stream) : IO Unit := do
  let line ← h.getLine
  if line.isEmpty then return ()
  IO.println (handle line)
  loop h
def main : IO Unit := do loop (← IO.getStdin)

import FalconModel.Static
open St

/-! Line-protocol driver for the static-route model (C16). Strings are hex of their UTF-8 bytes, `-` = empty.
      range SIZE START END            → whole n | partial first last len | unsat size      (`_set_range`)
      serve FB DIR SUFFIX             → reject | open PATH                                 (sanitise → normpath → resolve)
      resolve DIR N                   → reject | open PATH                                 (the tail for an arbitrary normpath result N)
      norm S                          → path P                                             (`posixpath.normpath`)
      sanitise FB S                   → ok | reject -/
def show' : RangeOut → String
  | .whole n => s!"whole {n}"
  | .partial_ a b c => s!"partial {a} {b} {c}"
  | .unsatisfiable n => s!"unsat {n}"

def hexVal (c : Char) : Nat :=
  if '0' ≤ c ∧ c ≤ '9' then c.toNat - 48 else if 'a' ≤ c ∧ c ≤ 'f' then c.toNat - 87 else if 'A' ≤ c ∧ c ≤ 'F' then c.toNat - 55 else 0
def unhexB : List Char → List UInt8
  | a :: b :: rest => UInt8.ofNat (hexVal a * 16 + hexVal b) :: unhexB rest
  | _ => []
def unhex (s : String) : Option (List Char) :=
  if s == "-" then some [] else (String.fromUTF8? (ByteArray.mk (unhexB s.toList).toArray)).map (·.toList)
def hexDigit (n : Nat) : Char := if n < 10 then Char.ofNat (48 + n) else Char.ofNat (87 + n)
def hex (s : List Char) : String :=
  if s.isEmpty then "-" else
    String.ofList ((String.ofList s).toUTF8.toList.flatMap fun b => [hexDigit (b.toNat / 16), hexDigit (b.toNat % 16)])

def showOpen : Option (List Char) → String
  | none => "reject"
  | some p => "open " ++ hex p

def step (line : String) : String :=
  match line.trimAscii.toString.splitOn " " with
  | ["range", sz, a, b] =>
    match sz.toNat?, a.toInt?, b.toInt? with
    | some sz, some a, some b => show' (setRange sz a b)
    | _, _, _ => "bad-args"
  | ["serve", fb, d, s] =>
    match unhex d, unhex s with
    | some d, some s => showOpen (serve (fb == "1") d s)
    | _, _ => "bad-utf8"
  | ["resolve", d, n] =>
    match unhex d, unhex n with
    | some d, some n => showOpen (resolve d n)
    | _, _ => "bad-utf8"
  | ["norm", s] => match unhex s with | some s => "path " ++ hex (normpath s) | none => "bad-utf8"
  | ["sanitise", fb, s] => match unhex s with | some s => (if sanitise (fb == "1") s then "ok" else "reject") | none => "bad-utf8"
  | _ => "bad-op"

partial def loop (h : IO.FS.Stream) : IO Unit := do
  let line ← h.getLine
  if line.isEmpty then return ()
  IO.println (step line)
  loop h
def main : IO Unit := do loop (← IO.getStdin)

import FalconModel.Static
import FalconModel.StaticResp
open St

/-! Line-protocol driver for the static-route model (C16). Strings are hex of their UTF-8 bytes, `-` = empty.
      range SIZE START END            → whole n | partial first last len | unsat size      (`_set_range`)
      serve FB DIR SUFFIX             → reject | open PATH                                 (sanitise → normpath → resolve)
      resolve DIR N                   → reject | open PATH                                 (the tail for an arbitrary normpath result N)
      norm S                          → path P                                             (`posixpath.normpath`)
      sanitise FB S                   → ok | reject
    Response side (`Sr`, StaticResp.lean); BYTES are hex, `-` = empty:
      match PFX HASFB PATH            → true | false                                       (`StaticRoute.match` after `__init__`'s prefix fix-up)
      route PATH PFX:FB ...           → index of the first matching route | none           (`app._static_routes` order)
      bfile BYTES POS LEN S,S,...     → r BYTES ... rem N     one `r` per `_BoundedFile.read(S)` (`N` = None), then `remaining`
      setrange BYTES none|START END   → raw POS LEN - | bounded POS REM LEN F-L/SIZE | unsat SIZE   (`_set_range`: stream kind, fh.tell(), …)
      fsreset / file PATH BYTES LM    → ok                                                 (the file system for `call`)
      call OPT PFX DIR DL FB|none PATH IMS RANGE → opens=P,P… then
            options | 404 | 400 LM | 304 LM | 416 LM SIZE | 200|206 LM LEN F-L/SIZE|- BODY dl=NAME|none
            (IMS = absent | bad | seconds; RANGE = absent | hex of the header value; BODY = the stream drained in 8192-byte reads) -/
def show' : RangeOut → String
  | .whole n => s!"whole {n}"
  | .partial_ a b c => s!"partial {a} {b} {c}"
  | .unsatisfiable n => s!"unsat {n}"

def hexVal (c : Char) : Nat :=
  if '0' ≤ c ∧ c ≤ '9' then c.toNat - 48 else if 'a' ≤ c ∧ c ≤ 'f' then c.toNat - 87 else if 'A' ≤ c ∧ c ≤ 'F' then c.toNat - 55 else 0
def unhexB : List Char → List UInt8
  | a :: b :: rest => UInt8.ofNat (hexVal a * 16 + hexVal b) :: unhexB rest
  | _ => []
def unhex (s : String) : Option (List Char) :=
  if s == "-" then some [] else (String.fromUTF8? (ByteArray.mk (unhexB s.toList).toArray)).map (·.toList)
def hexDigit (n : Nat) : Char := if n < 10 then Char.ofNat (48 + n) else Char.ofNat (87 + n)
def hex (s : List Char) : String :=
  if s.isEmpty then "-" else
    String.ofList ((String.ofList s).toUTF8.toList.flatMap fun b => [hexDigit (b.toNat / 16), hexDigit (b.toNat % 16)])

def showOpen : Option (List Char) → String
  | none => "reject"
  | some p => "open " ++ hex p

def unhexBytes (s : String) : List UInt8 := if s == "-" then [] else unhexB s.toList
def hexBytes (b : List UInt8) : String :=
  if b.isEmpty then "-" else String.ofList (b.flatMap fun x => [hexDigit (x.toNat / 16), hexDigit (x.toNat % 16)])

def showCr : Option (Nat × Nat × Nat) → String
  | none => "-"
  | some (f, l, sz) => s!"{f}-{l}/{sz}"

def showSetRange : Sr.SetRange → String
  | .unsat n => s!"unsat {n}"
  | .ok (.raw fh) len cr => s!"raw {fh.pos} {len} {showCr cr}"
  | .ok (.bounded b) len cr => s!"bounded {b.fh.pos} {b.remaining} {len} {showCr cr}"

def parseSize (s : String) : Option (Option Int) := if s == "N" then some none else s.toInt?.map some

def showOut : Sr.Out → String
  | .options => "options"
  | .notFound => "404"
  | .invalidHeader lm => s!"400 {lm}"
  | .notModified lm => s!"304 {lm}"
  | .unsat lm n => s!"416 {lm} {n}"
  | .served st lm stream len cr dl =>
    let body := Sr.drain 8192 (stream.window.length + 1) stream
    let d := match dl with | none => "none" | some n => hex n
    s!"{st} {lm} {len} {showCr cr} {hexBytes body} dl={d}"

abbrev FsTab := List (List Char × Sr.File)
def lookupFs (t : FsTab) : Sr.Fs := fun p => (t.find? (fun e => e.1 == p)).map (·.2)

def parseIms (s : String) : Option Sr.Ims :=
  if s == "absent" then some .absent else if s == "bad" then some .bad else s.toInt?.map .ok

def stepFs (fs : FsTab) (line : String) : FsTab × String :=
  match line.trimAscii.toString.splitOn " " with
  | ["fsreset"] => ([], "ok")
  | ["file", p, d, lm] =>
    match unhex p, lm.toInt? with
    | some p, some lm => ((p, { data := unhexBytes d, lm := lm }) :: fs, "ok")
    | _, _ => (fs, "bad-args")
  | ["call", opt, pfx, dir, dl, fb, path, ims, rng] =>
    let fbv : Option (Option (List Char)) := if fb == "none" then some none else (unhex fb).map some
    let rv : Option (Option (List Char)) := if rng == "absent" then some none else (unhex rng).map some
    match unhex pfx, unhex dir, fbv, unhex path, parseIms ims, rv with
    | some pfx, some dir, some fbv, some path, some ims, some rv =>
      let rt : Sr.Route := { pfx := pfx, dir := dir, downloadable := dl == "1", fallback := fbv }
      let r := Sr.call rt (lookupFs fs) { isOptions := opt == "1", path := path, ims := ims, range := rv }
      (fs, "opens=" ++ ",".intercalate (r.1.map hex) ++ " " ++ showOut r.2)
    | _, _, _, _, _, _ => (fs, "bad-args")
  | _ => (fs, "")

def step (line : String) : String :=
  match line.trimAscii.toString.splitOn " " with
  | ["match", pfx, fb, path] =>
    match unhex pfx, unhex path with
    | some pfx, some path => toString (Sr.matches (Sr.mkRoute pfx [] false (if fb == "1" then some [] else none)) path)
    | _, _ => "bad-utf8"
  | "route" :: path :: routes =>
    match unhex path with
    | none => "bad-utf8"
    | some path =>
      let rts := routes.filterMap fun r =>
        match r.splitOn ":" with
        | [p, fb] => (unhex p).map fun p => Sr.mkRoute p [] false (if fb == "1" then some [] else none)
        | _ => none
      match Sr.findRouteIdx rts path with
      | some i => toString i
      | none => "none"
  | ["bfile", d, pos, len, sizes] =>
    match pos.toNat?, len.toNat?, (sizes.splitOn ",").mapM parseSize with
    | some pos, some len, some szs =>
      let r := Sr.Bounded.reads ⟨⟨unhexBytes d, pos⟩, len⟩ szs
      " ".intercalate (r.1.map fun b => "r " ++ hexBytes b) ++ s!" rem {r.2.remaining}"
    | _, _, _ => "bad-args"
  | ["setrange", d, "none"] => showSetRange (Sr.setRange (unhexBytes d) none)
  | ["setrange", d, a, b] =>
    match a.toInt?, b.toInt? with
    | some a, some b => showSetRange (Sr.setRange (unhexBytes d) (some (a, b)))
    | _, _ => "bad-args"
  | ["range", sz, a, b] =>
    match sz.toNat?, a.toInt?, b.toInt? with
    | some sz, some a, some b => show' (setRange sz a b)
    | _, _, _ => "bad-args"
  | ["serve", fb, d, s] =>
    match unhex d, unhex s with
    | some d, some s => showOpen (serve (fb == "1") d s)
    | _, _ => "bad-utf8"
  | ["resolve", d, n] =>
    match unhex d, unhex n with
    | some d, some n => showOpen (resolve d n)
    | _, _ => "bad-utf8"
  | ["norm", s] => match unhex s with | some s => "path " ++ hex (normpath s) | none => "bad-utf8"
  | ["sanitise", fb, s] => match unhex s with | some s => (if sanitise (fb == "1") s then "ok" else "reject") | none => "bad-utf8"
  | _ => "bad-op"

partial def loop (h : IO.FS.Stream) (fs : FsTab) : IO Unit := do
  let line ← h.getLine
  if line.isEmpty then return ()
  let (fs', r) := stepFs fs line
  if r.isEmpty then IO.println (step line) else IO.println r
  loop h fs'
def main : IO Unit := do loop (← IO.getStdin) []

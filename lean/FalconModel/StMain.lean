import FalconModel.Static
open St
def show' : RangeOut → String
  | .whole n => s!"whole {n}"
  | .partial_ a b c => s!"partial {a} {b} {c}"
  | .unsatisfiable n => s!"unsat {n}"
def main : IO Unit := do
  for size in [0:7] do
    for s in [0:17] do
      for e in [0:10] do
        let start : Int := (s : Int) - 8
        let end_ : Int := (e : Int) - 1
        IO.println s!"{size} {start} {end_} {show' (setRange size start end_)}"

import FalconModel.TypedQuery
import FalconModel.Query
/-! line-protocol driver for the typed `to_query_str` model (`Tq`):
    `tq <cdl> <pfx> <mapping>`            → hex of the rendered query string (`-` empty) or `VE` (`str(int)` raised ValueError)
    `rt <cdl> <kb> <csv> <mapping>`       → per item, the typed getter of the value's type on parse(to_query_str(mapping))
    mapping: `-` or items joined by `;`, item `<name hex>=<value>`; value: `s<hex>` | `i<decimal>` | `bT` | `bF` | `n` |
    `[` items joined by `,` `]` -/
open Qs
def hv (c : Char) : Nat := if c.isDigit then c.toNat - 48 else c.toNat - 87
def fromHex (s : String) : List UInt8 :=
  let rec go : List Char → List UInt8
    | a :: b :: r => (hv a * 16 + hv b).toUInt8 :: go r
    | _ => []
  if s == "-" then [] else go s.toList
def hexDigitC (n : Nat) : Char := if n < 10 then Char.ofNat (48 + n) else Char.ofNat (87 + n)
def toHex (bs : List UInt8) : String :=
  if bs.isEmpty then "-" else String.ofList (bs.flatMap fun b => [hexDigitC (b.toNat / 16), hexDigitC (b.toNat % 16)])
def showStr (s : Str) : String := if s.isEmpty then "-" else ".".intercalate (s.map toString)

def parseScalar (s : String) : Tq.Scalar :=
  match s.toList with
  | 's' :: r => .str (fromHex (String.ofList r))
  | 'i' :: r => .int ((String.ofList r).toInt?.getD 0)
  | ['b', 'T'] => .bool true
  | ['b', 'F'] => .bool false
  | _ => .none

def parseValue (s : String) : Tq.Value :=
  if s.startsWith "[" then
    let body := ((s.drop 1).dropEnd 1).toString
    .list (if body.isEmpty then [] else (body.splitOn ",").map parseScalar)
  else .scalar (parseScalar s)

def parseMapping (s : String) : List (List UInt8 × Tq.Value) :=
  if s == "-" then [] else (s.splitOn ";").map fun item =>
    match item.splitOn "=" with
    | [k, v] => (fromHex k, parseValue v)
    | _ => ([], .scalar .none)

def showRes (f : α → String) : Gt.Out α Unit → String
  | .indexError => "indexError"
  | .ret (.value v) _ => "value:" ++ f v
  | .ret .default _ => "default"
  | .ret .missing400 _ => "missing400"
  | .ret .invalid400 _ => "invalid400"

def showBool (b : Bool) : String := if b then "True" else "False"
def showStrs (l : List Str) : String := "[" ++ ",".intercalate (l.map showStr) ++ "]"

/-- the getter that corresponds to the type of the value -/
def typedGet (p : Params) (kv : List UInt8 × Tq.Value) : String :=
  let name := U8.decodeReplace kv.1
  match kv.2 with
  | .scalar (.int _) => showRes toString (Gt.getInt (fun _ => ()) p name false none none none)
  | .scalar (.bool _) => showRes showBool (Gt.getBool (fun _ => ()) p name false false none)
  | .scalar _ => showRes showStr (Gt.getParam (fun _ => ()) p name false none)
  | .list _ => showRes showStrs (Gt.getList (fun _ => ()) p name false none)

partial def loop (h : IO.FS.Stream) : IO Unit := do
  let line ← h.getLine
  if line.isEmpty then return ()
  match line.trimAscii.toString.splitOn " " with
  | ["tq", cdl, pfx, m] =>
    IO.println (match Tq.toQueryStr (parseMapping m) (cdl == "1") (pfx == "1") with
      | some q => toHex q
      | none => "VE")
  | ["rt", cdl, kb, csv, m] =>
    let tm := parseMapping m
    IO.println (match Tq.toQueryStr tm (cdl == "1") false with
      | some q =>
        let p := parseQS q (kb == "1") (csv == "1")
        if tm.isEmpty then "-" else " ".intercalate (tm.map (typedGet p))
      | none => "VE")
  | _ => IO.println "bad-op"
  loop h
def main : IO Unit := do loop (← IO.getStdin)

import FalconModel.Utf8
def hv (c : Char) : Nat := if c.isDigit then c.toNat - 48 else c.toNat - 87
def fromHex (s : String) : List UInt8 :=
  let rec go : List Char → List UInt8
    | a :: b :: r => (hv a * 16 + hv b).toUInt8 :: go r
    | _ => []
  if s == "-" then [] else go s.toList
partial def loop (h : IO.FS.Stream) : IO Unit := do
  let line ← h.getLine
  if line.isEmpty then return ()
  IO.println (" ".intercalate ((U8.decodeReplace (fromHex line.trimAscii.toString)).map toString))
  loop h
def main : IO Unit := do loop (← IO.getStdin)

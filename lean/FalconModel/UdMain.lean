import FalconModel.UriEncode
import FalconModel.Utf8
import FalconModel.Utf8Enc
import FalconModel.UriStr
open Uri
def hv (c : Char) : Nat := if c.isDigit then c.toNat - 48 else c.toNat - 87
def fromHex (s : String) : List UInt8 :=
  let rec go : List Char → List UInt8
    | a :: b :: r => (hv a * 16 + hv b).toUInt8 :: go r
    | _ => []
  if s == "-" then [] else go s.toList
def hexOfByte (b : UInt8) : String :=
  let d (n : Nat) : Char := if n < 10 then Char.ofNat (48+n) else Char.ofNat (87+n)
  String.ofList [d (b.toNat/16), d (b.toNat%16)]
def toHex (bs : List UInt8) : String := if bs.isEmpty then "-" else String.join (bs.map hexOfByte)
def showCps (s : List Nat) : String := if s.isEmpty then "-" else ".".intercalate (s.map toString)

/-- code points "97.233.8364" ("-" = empty string) -/
def parseCps (s : String) : List Nat := if s == "-" then [] else (s.splitOn ".").map String.toNat!
def encHex (cps : List Nat) : String :=
  match U8.encode? cps with
  | some bs => toHex bs
  | none => "EXC:UnicodeEncodeError"
def guarded (cps : List Nat) (f : List Nat → List Nat) : String :=
  match U8.encode? cps with
  | some _ => showCps (f cps)
  | none => "EXC:UnicodeEncodeError"

def step (line : String) : String :=
  match line.trimAscii.toString.splitOn " " with
  | ["tables"] => toHex unreservedTab ++ " " ++ toHex delimTab
  | ["decode", p, h] => showCps (U8.decodeReplace (decodePlus (p == "1") (fromHex h)))
  | ["decodeb", p, h] => toHex (decodePlus (p == "1") (fromHex h))
  | ["enc", "0", h] => toHex (encode (fromHex h))
  | ["enc", "1", h] => toHex (encodeValue (fromHex h))
  | ["enc", "2", h] => toHex (encodeCheckEscaped (fromHex h))
  | ["enc", "3", h] => toHex (encodeValueCheckEscaped (fromHex h))
  -- str level: `str.encode()`, encode-then-replace-decode, and the str-level transcription of decode / encode / encode_value
  | ["u8enc", c] => encHex (parseCps c)
  | ["roundtrip", c] => guarded (parseCps c) (fun s => U8.decodeReplace (U8.encode s))
  | ["sdecode", p, c] => guarded (parseCps c) (Us.decode (p == "1"))
  | ["senc", "0", c] => guarded (parseCps c) Us.encode
  | ["senc", "1", c] => guarded (parseCps c) Us.encodeValue
  | ["senc", "2", c] => guarded (parseCps c) Us.encodeCheckEscaped
  | ["senc", "3", c] => guarded (parseCps c) Us.encodeValueCheckEscaped
  | ["srt", "0", p, c] => guarded (parseCps c) (fun s => Us.decode (p == "1") (Us.encode s))
  | ["srt", "1", p, c] => guarded (parseCps c) (fun s => Us.decode (p == "1") (Us.encodeValue s))
  | ["shost", c] =>
    let (n, p) := Us.parseHost (parseCps c)
    showCps n ++ " " ++ (match p with
      | none => "default"
      | some t => match Us.natOfDigits t with | some k => toString k | none => "nonnumeric")
  | ["host", h] =>
    let (n, p) := parseHost (fromHex h)
    toHex n ++ " " ++ (match p with
      | none => "default"
      | some t => match natOfDigits t with | some k => toString k | none => "nonnumeric")
  | _ => "bad-op"

partial def loop (h : IO.FS.Stream) : IO Unit := do
  let line ← h.getLine
  if line.isEmpty then return ()
  IO.println (step line)
  loop h
def main : IO Unit := do loop (← IO.getStdin)

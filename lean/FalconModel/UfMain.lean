import FalconModel.UrlForm
/-! C12 line-protocol driver for the `Uf` model (URLEncodedFormHandler).
    `ser <mapping>` -> hex of `serialize`;  `des <kb> <csv> <body hex>` -> the parsed mapping or `malformed`
    (`kb` / `csv`: `1`, `0`, or `-` = the constructor default);  `rt <kb> <csv> <mapping>` -> `deserialize(serialize(m))`;
    `nf <kb> <mapping>` -> the normal form (what the round-trip theorem says `rt` is);  `defaults`. -/
open Qs Uf
def hv (c : Char) : Nat := if c.isDigit then c.toNat - 48 else c.toNat - 87
def fromHex (s : String) : List UInt8 :=
  let rec go : List Char → List UInt8
    | a :: b :: r => (hv a * 16 + hv b).toUInt8 :: go r
    | _ => []
  if s == "-" then [] else go s.toList
def hexDigitC (n : Nat) : Char := if n < 10 then Char.ofNat (48 + n) else Char.ofNat (87 + n)
def toHex (bs : List UInt8) : String :=
  if bs.isEmpty then "-" else String.ofList (bs.flatMap fun b => [hexDigitC (b.toNat / 16), hexDigitC (b.toNat % 16)])
def showStr (s : Str) : String := if s.isEmpty then "-" else ".".intercalate (s.map toString)
def showVal : Val → String
  | .one v => "1:" ++ showStr v
  | .many vs => "m:" ++ ",".intercalate (vs.map showStr)
def showParams (p : Params) : String :=
  if p.isEmpty then "{}" else " ".intercalate (p.map fun e => showStr e.1 ++ "=" ++ showVal e.2)
def showRes : Option Params → String
  | none => "malformed"
  | some p => showParams p

/-- `<khex>=1:<vhex>` | `<khex>=m:<vhex>,<vhex>,…` joined by `;` (`-` = empty mapping; `m:` alone = empty list) -/
def parseMapping (s : String) : List (List UInt8 × Gt.BVal) :=
  if s == "-" then [] else (s.splitOn ";").map fun item =>
    match item.splitOn "=" with
    | [k, v] =>
      if v.startsWith "1:" then (fromHex k, .one (fromHex (v.drop 2).toString))
      else
        let body := (v.drop 2).toString
        (fromHex k, .many (if body.isEmpty then [] else (body.splitOn ",").map fromHex))
    | _ => ([], .one [])

def mkHandler (kb csv : String) : Handler :=
  let d : Handler := {}
  { keepBlank := if kb == "-" then d.keepBlank else kb == "1", csv := if csv == "-" then d.csv else csv == "1" }

def decV : Gt.BVal → Val
  | .one v => .one (U8.decodeReplace v)
  | .many vs => .many (vs.map U8.decodeReplace)

partial def loop (h : IO.FS.Stream) : IO Unit := do
  let line ← h.getLine
  if line.isEmpty then return ()
  match line.trimAscii.toString.splitOn " " with
  | ["ser", m] => IO.println (toHex (serialize {} (parseMapping m)))
  | ["des", kb, csv, body] => IO.println (showRes (deserialize (mkHandler kb csv) (fromHex body)))
  | ["rt", kb, csv, m] =>
    let hd := mkHandler kb csv
    IO.println (showRes (deserialize hd (serialize hd (parseMapping m))))
  | ["nf", kb, m] =>
    let hd := mkHandler kb "-"
    IO.println (showParams ((normalForm hd.keepBlank (parseMapping m)).map fun kv => (U8.decodeReplace kv.1, decV kv.2)))
  | ["defaults"] =>
    let d : Handler := {}
    IO.println s!"keep_blank={d.keepBlank} csv={d.csv}"
  | _ => IO.println "bad-op"
  loop h
def main : IO Unit := do loop (← IO.getStdin)

import FalconModel.WsgiStreamFixed
import FalconModel.StreamFault
open Ws7 (Bytes S)
open Ws7F
def hexD (n : Nat) : Char := if n < 10 then Char.ofNat (48+n) else Char.ofNat (87+n)
def toHex (bs : Bytes) : String := if bs.isEmpty then "-" else String.ofList (bs.flatMap fun b => [hexD (b.toNat/16), hexD (b.toNat%16)])
def hv (c : Char) : Nat := if c.isDigit then c.toNat - 48 else c.toNat - 87
def fromHex (s : String) : Bytes :=
  let rec go : List Char → Bytes
    | a :: b :: r => (hv a * 16 + hv b).toUInt8 :: go r
    | _ => []
  if s == "-" then [] else go s.toList
def optInt (s : String) : Option Int := if s == "none" then none else s.toInt?
def st (s : S) : String := s!" rem={s.remaining} eof={eof s} asked={s.raw.asked}"
def step (s : S) (line : String) : S × String :=
  match line.trimAscii.toString.splitOn " " with
  | ["new", cl, dat, shorts] =>
    let sh := if shorts == "-" then [] else (shorts.splitOn ",").map (·.toNat!)
    ({ remaining := cl.toInt!, raw := { data := fromHex dat, shorts := sh } }, "ok")
  | ["read", n] => let (d, s) := read s (optInt n); (s, "data " ++ toHex d ++ st s)
  | ["readline", n] => let (d, s) := readline s (optInt n); (s, "data " ++ toHex d ++ st s)
  | ["readlines", n] => let (d, s) := readlines s (optInt n); (s, "lines " ++ " ".intercalate (d.map toHex) ++ st s)
  | ["next"] => let (d, s) := next s; (s, (match d with | some b => "data " ++ toHex b | none => "stop") ++ st s)
  | ["exhaust", c] => let s := exhaust s c.toInt!; (s, "unit" ++ st s)
  -- an operation abandoned because a call into wsgi.input raised (Wf): `k` = number of source calls of the operation that had returned before
  | ["fault", "read", n] => let s := Wf.readFault s (optInt n); (s, "fault" ++ st s)
  | ["fault", "readline", n] => let s := Wf.readlineFault s (optInt n); (s, "fault" ++ st s)
  | ["fault", "next"] => let s := Wf.nextFault s; (s, "fault" ++ st s)
  | ["fault", "readlines", n, k] => let s := Wf.readlinesFault s (optInt n) k.toNat!; (s, "fault" ++ st s)
  | ["fault", "exhaust", c, k] => let s := Wf.exhaustFault s c.toInt! k.toNat!; (s, "fault" ++ st s)
  | _ => (s, "bad-op")
partial def loop (h : IO.FS.Stream) (s : S) : IO Unit := do
  let line ← h.getLine
  if line.isEmpty then return ()
  let (s', out) := step s line
  IO.println out
  loop h s'
def main : IO Unit := do loop (← IO.getStdin) { remaining := 0, raw := { data := [] } }

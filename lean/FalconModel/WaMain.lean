import FalconModel.WsAcceptIO
open Ws (W Exc S)

/-! line protocol of the C17 `accept()`-arguments correspondence: one call per line

    acc supH=0|1 st=h|a|c disc=-|<int> fail=0|1 tok=g<sub>~<hdrs>         (see WsAcceptIO.lean)

    `st` = the state of the socket the call is made on (handshake / accepted / closed), `disc` = the disconnect flag it observes,
    `fail=1` = the server's `send` raises (an untranslated exception).
    reply:  <outcome> <event>    outcome = ok | ONA | VEO | PY | WSD:<code> ;
            event = - (nothing handed to the server) | acc:<subprotocol 0|1>:<headers>  with headers = - (no key) | = (empty list) |
            name/value_name/value… (bytes in hex joined by `.`, `-` for an empty byte string) -/

def kv (ws : List String) (k : String) : String :=
  match ws.find? (·.startsWith (k ++ "=")) with
  | some s => (s.drop (k.length + 1)).toString
  | none => ""

def showExc : Exc → String
  | .notAllowed => "ONA"
  | .disconnected c => s!"WSD:{c}"
  | .payloadType => "PTE"
  | .invalidCloseCode => "VEI"
  | .valueOther => "VEO"
  | .osErr => "OSE"
  | .httpError s => s!"HE:{s}"
  | .httpStatus s => s!"HS:{s}"
  | .pyErr => "PY"
  | .assertion => "AE"
  | .boom => "BOOM"

def runCase (ws : List String) : String :=
  match Wa.parseAcceptTok (kv ws "tok").toList with
  | none => "protocol error: tok"
  | some (sub, a) =>
    let st : S := match kv ws "st" with | "a" => .accepted | "c" => .closed | _ => .handshake
    let w : W := { st := st, closeCode := if st == .closed then some 1000 else none, supHeaders := kv ws "supH" == "1", supReason := true,
                   reasonCodes := [], errCloseCode := 1011, binMediaOk := false,
                   failAt := if kv ws "fail" == "1" then some 0 else none, fault := .other, inbox := [] }
    let disc : Option Int := if kv ws "disc" == "-" then none else (kv ws "disc").toInt?
    let r := Wa.accept w disc sub a
    let out := match r.2.1 with | none => "ok" | some e => showExc e
    let ev := match r.2.2 with
      | none => "-"
      | some e => s!"acc:{if e.subprotocol then 1 else 0}:{Wa.showHeaders e.headers}"
    s!"{out} {ev}"

partial def loop (h : IO.FS.Stream) : IO Unit := do
  let line ← h.getLine
  if line.isEmpty then return ()
  IO.println (runCase (line.trimAscii.toString.splitOn " "))
  loop h
def main : IO Unit := do loop (← IO.getStdin)

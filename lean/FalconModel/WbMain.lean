import FalconModel.WsBuf
import FalconModel.WsMode
open Wb
/-! line protocol: `log <cap> <event> …`  (a receiver of the given capacity), or
    `cfg <major.minor> <max_receive_queue> log <event> …`  (a WebSocket constructed with that announced spec version and that
    configured queue: `Wm.wire` decides the path; the reply starts with `hdr=<supports_accept_headers>`, and is `direct` when the
    configuration yields no buffered receiver). -/
def parseVer (t : String) : Option Wm.Ver :=
  match t.splitOn "." with
  | [a, b] => match a.toNat?, b.toNat? with
    | some a, some b => some ⟨a, b⟩
    | _, _ => none
  | _ => none
def parseEv (t : String) : Option Ev :=
  match t.splitOn ":" with
  | ["pull"] => some .pull
  | ["deliver", m] => some (.deliver m.toNat!)
  | ["append", m] => some (.append m.toNat!)
  | ["popleft", m] => some (.popleft m.toNat!)
  | ["mkfutPump"] => some .mkfutPump
  | ["mkfutApp"] => some .mkfutApp
  | ["resolvePump"] => some .resolvePump
  | ["resolveApp"] => some .resolveApp
  | ["cancelApp"] => some .cancelApp
  | ["recvStart"] => some .recvStart
  | ["recvRet", m] => some (.recvRet m.toNat!)
  | ["recvSynthetic"] => some .recvSynthetic
  | ["recvCancelled"] => some .recvCancelled
  | ["sendOk"] => some .sendOk
  | ["sendDisc"] => some .sendDisc
  | ["stop"] => some .stop
  | _ => none
def runLog (cap : Nat) (toks : List String) : String :=
  match toks.filter (· != "") |>.mapM parseEv with
  | some evs =>
    match accept (4 * evs.length + 8) { cap := cap } evs 0 with
    | .ok s =>
      -- also report the final observables: queue length, events held, returned/delivered counts, flag, pump alive
      s!"accepted q={s.q.length} held={(held s).length} ret={(returned evs).length} dlv={(delivered evs).length} disc={if s.disc then 1 else 0} pump={if s.pump == .exited then 0 else 1}"
    | .error e => "REJECTED " ++ e
  | none => "bad-op"
def step (line : String) : String :=
  match line.trimAscii.toString.splitOn " " with
  | "log" :: cap :: toks => runLog cap.toNat! toks
  | "cfg" :: ver :: mq :: "log" :: toks =>
    match parseVer ver, mq.toNat? with
    | some v, some q =>
      let w := Wm.wire v q
      s!"hdr={if w.acceptHeaders then 1 else 0} " ++
        (match w.path with
         | .buffered cap => runLog cap toks
         | .direct => "direct")
    | _, _ => "bad-op"
  | _ => "bad-op"
partial def loop (h : IO.FS.Stream) : IO Unit := do
  let line ← h.getLine
  if line.isEmpty then return ()
  IO.println (step line)
  loop h
def main : IO Unit := do loop (← IO.getStdin)

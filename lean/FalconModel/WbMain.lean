import FalconModel.WsBuf
import FalconModel.WsMode
open Wb
/-! line protocol: `log <cap> <event> …`  (a receiver of the given capacity), or
    `cfg <major.minor> <max_receive_queue> log <event> …`  (a WebSocket constructed with that announced spec version and that
    configured queue: `Wm.wire` decides the path; the reply starts with `hdr=<supports_accept_headers>`, and is `direct` when the
    configuration yields no buffered receiver), or
    `hist <op>,<op>,… <major.minor> log <event> …`  (a WebSocket made by a `falcon.asgi.App` object with the given history of option changes `q<n>` and
    earlier connections `c<major.minor>`, `-` = none: `Wm.serve` wires the connection from the options in force). -/
def parseVer (t : String) : Option Wm.Ver :=
  match t.splitOn "." with
  | [a, b] => match a.toNat?, b.toNat? with
    | some a, some b => some ⟨a, b⟩
    | _, _ => none
  | _ => none
def parseEv (t : String) : Option Ev :=
  match t.splitOn ":" with
  | ["pull"] => some .pull
  | ["deliver", m] => some (.deliver m.toNat!)
  | ["append", m] => some (.append m.toNat!)
  | ["popleft", m] => some (.popleft m.toNat!)
  | ["mkfutPump"] => some .mkfutPump
  | ["mkfutApp"] => some .mkfutApp
  | ["resolvePump"] => some .resolvePump
  | ["resolveApp"] => some .resolveApp
  | ["cancelApp"] => some .cancelApp
  | ["recvStart"] => some .recvStart
  | ["recvRet", m] => some (.recvRet m.toNat!)
  | ["recvSynthetic"] => some .recvSynthetic
  | ["recvCancelled"] => some .recvCancelled
  | ["sendOk"] => some .sendOk
  | ["sendDisc"] => some .sendDisc
  | ["stop"] => some .stop
  | _ => none
def runLog (cap : Nat) (toks : List String) : String :=
  match toks.filter (· != "") |>.mapM parseEv with
  | some evs =>
    match accept (4 * evs.length + 8) { cap := cap } evs 0 with
    | .ok s =>
      -- also report the final observables: queue length, events held, returned/delivered counts, flag, pump alive
      s!"accepted q={s.q.length} held={(held s).length} ret={(returned evs).length} dlv={(delivered evs).length} disc={if s.disc then 1 else 0} pump={if s.pump == .exited then 0 else 1}"
    | .error e => "REJECTED " ++ e
  | none => "bad-op"
/-- what the App object did before this connection: `q<n>` = `ws_options.max_receive_queue = n`, `c<major.minor>` = an earlier connection; `-` = nothing -/
def parseOp (t : String) : Option Wm.AppOp :=
  if t.startsWith "q" then (t.drop 1).toString.toNat?.map .setQueue
  else if t.startsWith "c" then (parseVer (t.drop 1).toString).map .connect
  else none
def parseHist (t : String) : Option (List Wm.AppOp) :=
  if t == "-" then some [] else (t.splitOn ",").mapM parseOp
def wired (w : Wm.Wiring) (toks : List String) : String :=
  s!"hdr={if w.acceptHeaders then 1 else 0} " ++
    (match w.path with
     | .buffered cap => runLog cap toks
     | .direct => "direct")
def step (line : String) : String :=
  match line.trimAscii.toString.splitOn " " with
  | "log" :: cap :: toks => runLog cap.toNat! toks
  | "cfg" :: ver :: mq :: "log" :: toks =>
    match parseVer ver, mq.toNat? with
    | some v, some q => wired (Wm.wire v q) toks
    | _, _ => "bad-op"
  | "hist" :: h :: ver :: "log" :: toks =>
    match parseHist h, parseVer ver with
    | some ops, some v =>
      match (Wm.serve {} (ops ++ [.connect v])).getLast? with
      | some w => wired w toks
      | none => "bad-op"
    | _, _ => "bad-op"
  | _ => "bad-op"
partial def loop (h : IO.FS.Stream) : IO Unit := do
  let line ← h.getLine
  if line.isEmpty then return ()
  IO.println (step line)
  loop h
def main : IO Unit := do loop (← IO.getStdin)

import FalconModel.WsPayload
import FalconModel.WsAcceptIO
open Ws (S Exc Fault CodeArg Catch RecvKind)
open Wp

/-! line protocol of the C17 payload correspondence: one session per line, `key=value` tokens separated by blanks; the same
    keys as `wsdriver` (WsMain.lean), with payloads:

    case supH=0|1 supR=0|1 err=<int> bin=0|1 fail=-|<n> fault=os|os<code>|ok1000|sub|val|other icc=0|1 refuse=<int>,… q=0|1 first=0|1
         route=r|u|n inbox=<in>,… reasons=<int>,… mwreq=<step>;… mwres=<step>;… script=<step>;… custom=none|h:<step>;… fd=-|<int>

    step = <op>:<catch 0|1|2>:<disc -|int>
    op   = A<headers><subprotocol><badsub> | C(n|x|<int>)[+] | St<hex> | Sb<hex> | Smt<doc> | Smb<doc> | Rt | Rd | Rm |
           Ag<sub>~<hdrs> (accept with concrete arguments: WsAcceptIO.lean) | Kt | Kd | Km (a receive_* that parked and was cancelled) |
           H<status> | T<status> | X | B | E<class>  (class = ona|pte|vei|veo|ose|ae|wsdn|wsd<code>: raised by the script itself)
    <hex> = the payload in hex (`-` = empty); a text payload is the hex of its UTF-8 encoding
    <doc> = `!` (an object the JSON encoder rejects) or the hex of the UTF-8 JSON text of the document
    in   = r<key>/<key> (text key, bytes key; key = a (absent) | n (None) | v<hex>) | dn | d<code>
    `bin=1`: the BINARY handler is the harness' msgpack-like stub; `bin=0`: MissingDependencyHandler

    reply: sent=<ev>,… log=<outcome>,… hlog=<outcome>,… esc=<exc>|- pub=<unaccepted><closed><ready>|-
    ev = acc<h><s> | snd:t:<hex> | snd:b:<hex> | cls:<code>:<reason 0|1>, with `!` appended when the call raised
    outcome = ok | ok=t:<hex> | ok=b:<hex> | ok=m:<hex of the JSON text of the document> | <exception> -/

def kv (ws : List String) (k : String) : String :=
  match ws.find? (·.startsWith (k ++ "=")) with
  | some s => (s.drop (k.length + 1)).toString
  | none => ""

def b01 (c : Char) : Bool := c == '1'

def hexD (n : Nat) : Char := if n < 10 then Char.ofNat (48 + n) else Char.ofNat (87 + n)
def toHex (bs : Bytes) : String :=
  if bs.isEmpty then "-" else String.ofList (bs.flatMap fun b => [hexD (b.toNat / 16), hexD (b.toNat % 16)])
def hv (c : Char) : Nat := if c.isDigit then c.toNat - 48 else c.toNat - 87
def fromHexL : List Char → Bytes
  | a :: b :: r => (hv a * 16 + hv b).toUInt8 :: fromHexL r
  | _ => []
def fromHex (s : List Char) : Bytes := if s == ['-'] then [] else fromHexL s

def textOfBytes (b : Bytes) : Option Text := (String.fromUTF8? ⟨b.toArray⟩).map (·.toList)
def bytesOfText (s : Text) : Bytes := (String.ofList s).toUTF8.data.toList

def parseDoc (r : List Char) : Option JDoc :=
  if r == ['!'] then some none
  else match textOfBytes (fromHex r) with
    | some s => (Js.loads s).map some
    | none => none

/-- `E<class>`: the script itself raises an exception of one of the framework's own classes (by hand, or out of an operation on
    another connection's socket): ona | pte | vei | veo | ose | ae | wsdn | wsd<code> (the argument of `WebSocketDisconnected(...)`) -/
def parseExc (r : List Char) : Option Exc :=
  match r with
  | ['o', 'n', 'a'] => some .notAllowed
  | ['p', 't', 'e'] => some .payloadType
  | ['v', 'e', 'i'] => some .invalidCloseCode
  | ['v', 'e', 'o'] => some .valueOther
  | ['o', 's', 'e'] => some .osErr
  | ['a', 'e'] => some .assertion
  | ['p', 'y'] => some .pyErr
  | ['w', 's', 'd', 'n'] => some (Ws.wsd none)
  | 'w' :: 's' :: 'd' :: r => (String.ofList r).toInt?.map fun c => Ws.wsd (some c)
  | _ => none

def parseOp (s : String) : Option (Op JDoc) :=
  match s.toList with
  | ['A', h, p, b] => some (.accept (b01 h) (b01 p) (b01 b) none)
  | 'A' :: 'g' :: r => (Wa.parseAcceptTok ('g' :: r)).map fun (sub, a) => .accept a.truthy sub.present sub.bad (Wa.headerExc a)
  | ['C', 'n'] => some (.close .none false)
  | ['C', 'n', '+'] => some (.close .none true)
  | ['C', 'x'] => some (.close .notInt false)
  | ['C', 'x', '+'] => some (.close .notInt true)
  | 'C' :: r =>
    let (r, plus) := if r.getLast? == some '+' then (r.dropLast, true) else (r, false)
    (String.ofList r).toInt?.map fun c => .close (.int c) plus
  | 'S' :: 't' :: r => (textOfBytes (fromHex r)).map .sendText
  | 'S' :: 'b' :: r => some (.sendData (fromHex r))
  | 'S' :: 'm' :: 't' :: r => (parseDoc r).map fun d => .sendMedia d .text
  | 'S' :: 'm' :: 'b' :: r => (parseDoc r).map fun d => .sendMedia d .binary
  | ['R', 't'] => some (.recv .text)
  | ['R', 'd'] => some (.recv .data)
  | ['R', 'm'] => some (.recv .media)
  | ['K', 't'] => some (.recvAbandoned .text)
  | ['K', 'd'] => some (.recvAbandoned .data)
  | ['K', 'm'] => some (.recvAbandoned .media)
  | 'H' :: r => (String.ofList r).toInt?.map .raiseHttp
  | 'T' :: r => (String.ofList r).toInt?.map .raiseStatus
  | ['X'] => some .raiseExc
  | ['B'] => some .raiseBoom
  | 'E' :: r => (parseExc r).map .raiseOf
  | _ => none

def parseKeyT (s : String) : Option (Key Text) :=
  match s.toList with
  | ['a'] => some .absent
  | ['n'] => some .null
  | 'v' :: r => (textOfBytes (fromHex r)).map .val
  | _ => none

def parseKeyB (s : String) : Option (Key Bytes) :=
  match s.toList with
  | ['a'] => some .absent
  | ['n'] => some .null
  | 'v' :: r => some (.val (fromHex r))
  | _ => none

def parseIn (s : String) : Option InEv :=
  match s.toList with
  | ['d', 'n'] => some (.disconnect none)
  | 'd' :: r => (String.ofList r).toInt?.map fun c => .disconnect (some c)
  | 'r' :: r =>
    match (String.ofList r).splitOn "/" with
    | [t, b] => match parseKeyT t, parseKeyB b with
      | some t, some b => some (.receive t b)
      | _, _ => none
    | _ => none
  | _ => none

def showEv : Ev × Bool → String
  | (e, ok) =>
    (match e with
     | .accept h s => s!"acc{if h then 1 else 0}{if s then 1 else 0}"
     | .sendText p => "snd:t:" ++ toHex (bytesOfText p)
     | .sendBytes p => "snd:b:" ++ toHex p
     | .close c r => s!"cls:{c}:{if r then 1 else 0}") ++ (if ok then "" else "!")

def showExc : Exc → String
  | .notAllowed => "ONA"
  | .disconnected c => s!"WSD:{c}"
  | .payloadType => "PTE"
  | .invalidCloseCode => "VEI"
  | .valueOther => "VEO"
  | .osErr => "OSE"
  | .httpError s => s!"HE:{s}"
  | .httpStatus s => s!"HS:{s}"
  | .pyErr => "PY"
  | .assertion => "AE"
  | .boom => "BOOM"

def showOut : Out JDoc → String
  | .error e => showExc e
  | .ok none => "ok"
  | .ok (some (.text s)) => "ok=t:" ++ toHex (bytesOfText s)
  | .ok (some (.data b)) => "ok=b:" ++ toHex b
  | .ok (some (.media (some d))) => "ok=m:" ++ toHex (bytesOfText (Js.dumps d))
  | .ok (some (.media none)) => "ok=m:!"

def splitNE (s : String) (sep : String) : List String := if s.isEmpty then [] else s.splitOn sep

def parseDisc (s : String) : Option Int := if s == "-" then none else s.toInt?

/-- a step that does not parse becomes `X` with a marker outcome, so a protocol error can never look like agreement -/
def parseSteps (s : String) : List (Step JDoc) :=
  (splitNE s ";").map fun t =>
    match t.splitOn ":" with
    | [o, c, d] =>
      let ca := if c == "1" then Catch.documented else if c == "2" then Catch.all else Catch.none
      match parseOp o with
      | some op => (op, ca, parseDisc d)
      | none => (.raiseStatus (-1), .none, none)
    | _ => (.raiseStatus (-2), .none, none)

def parseFault (s : String) : Fault :=
  if s == "ok1000" then .ok1000 else if s == "sub" then .subproto else if s == "other" then .other else if s == "val" then .value
  else if s == "os" then .os none else .os ((s.drop 2).toString.toInt?)

def showLog (l : List (Out JDoc)) : String := ",".intercalate (l.map showOut)

def runCase (ws : List String) : String :=
  let inb := (splitNE (kv ws "inbox") ",").map parseIn
  if inb.any (·.isNone) then "protocol error: inbox" else
  let w : W := {
    supHeaders := kv ws "supH" == "1", supReason := kv ws "supR" == "1",
    reasonCodes := (splitNE (kv ws "reasons") ",").filterMap (·.toInt?),
    errCloseCode := (kv ws "err").toInt!,
    failAt := (kv ws "fail").toNat?, fault := parseFault (kv ws "fault"), faultIcc := kv ws "icc" == "1",
    refused := (splitNE (kv ws "refuse") ",").filterMap (·.toInt?), buffered := kv ws "q" == "1",
    inbox := inb.filterMap id }
  let h := harnessHandlers (kv ws "bin" == "1")
  if kv ws "first" == "0" then
    let w := rejectFirst w
    s!"sent={",".intercalate (w.sent.map showEv)} log= hlog= esc={if w.sent.all (·.2) then "-" else showExc (w.fault.raw w.faultIcc)} pub=-"
  else
  let cu := kv ws "custom"
  let c : Cfg JDoc := { custom := if cu.startsWith "h:" then some (parseSteps (cu.drop 2).toString) else none, fd := parseDisc (kv ws "fd") }
  let route : Route JDoc := match kv ws "route" with
    | "u" => .unrouted
    | "n" => .noResponder
    | _ => .responder (parseSteps (kv ws "script"))
  let r := handleMw h c w (parseSteps (kv ws "mwreq")) (parseSteps (kv ws "mwres")) route
  let bit (b : Bool) := if b then "1" else "0"
  let pub := bit (r.w.st == .handshake) ++ bit (r.w.isClosed c.fd) ++ bit (r.w.st == .accepted && c.fd.isNone)
  s!"sent={",".intercalate (r.w.sent.map showEv)} log={showLog r.log} hlog={showLog r.hlog} esc={match r.esc with | none => "-" | some e => showExc e} pub={pub}"

partial def loop (h : IO.FS.Stream) : IO Unit := do
  let line ← h.getLine
  if line.isEmpty then return ()
  IO.println (runCase (line.trimAscii.toString.splitOn " "))
  loop h
def main : IO Unit := do loop (← IO.getStdin)

import FalconModel.Wire
import FalconModel.WirePath
open Wr

/-! Line-protocol driver for the wire-level header model (C06, request side).

    A string S is `.` followed by its code points in decimal separated by `.` (so `.` is the empty string, `.72.105` = "Hi").

      h fw=0|1 cl=0|1 m=S hs=-|S:S;S:S;…  q=S,S,…
          a wire request: `wsgi.file_wrapper` supplied or not, client address known or not, method, the field lines
          (name:value) in wire order, and the names to look up.  Reply (one line, space separated):
            g=<W>/<A>|<W>/<A>|…   per looked-up name: get_header(name), get_header(name, default='dflt'),
                                  get_header(name, required=True) on WSGI / on ASGI, each `~` (None), S, or `!` (HTTPMissingHeader);
                                  the three results of one side are comma-separated.  The ASGI side threads the `_name_cache`.
            HW=D  WSGI req.headers          (D = `-` or S:S;S:S;… in iteration order)
            HL=D  WSGI req.headers_lower
            HA=D  ASGI req.headers
            CT=<w>/<a>   req.content_type (`~` or S)
            CL=<w>/<a>   req.content_length (`~`, the number, or `bad` = HTTPInvalidHeader)
      u S     reply: S.upper()/S.lower()   (code points < 256)
      t m=S tg=S sc=S sn=S sp=N cl=-|S:N rp=S fw=0|1 hs=-|S:S;…  lib=<6 chars> o=<3 chars>
          the request TARGET and the connection attributes (model `Wq`, FalconModel/WirePath.lean): method, raw request-target
          (bytes as code points < 256), scheme, server name / port, client address:port or `-`, mount point, field lines;
          lib = omitScriptName omitQueryString omitRootPath omitScheme clientNull (an unknown client sent as None; 0|1 each) + server key g|m|n (given / missing /
          None); o = strip_url_path_trailing_slash keep_blank_qs_values auto_parse_qs_csv (0|1 each).  Reply:
            W <method> <path> <query_string> <params> <root_path> <scheme> <host> <port> <netloc> <remote_addr> <access_route>
            A … the same eleven for falcon.asgi.Request, or `A CTOR` when its constructor raises (query_string not UTF-8)
          values: S, `EXC` (a non-HTTP exception), `400` (HTTPInvalidHeader); params `-` or key:oS (scalar) / key:mS,S (list)
          joined by `;`; port a number or `~`; access_route `-` or S,S,… -/

def decS (s : String) : Str :=
  ((s.splitOn ".").drop 1).filterMap fun t => if t.isEmpty then none else t.toNat?
def encS (s : Str) : String := "." ++ ".".intercalate (s.map toString)

def kv (ws : List String) (k : String) : String :=
  match ws.find? (·.startsWith (k ++ "=")) with
  | some s => (s.drop (k.length + 1)).toString
  | none => ""

def decHdrs (s : String) : List (Str × Str) :=
  if s == "-" || s == "" then [] else
    (s.splitOn ";").filterMap fun it =>
      match it.splitOn ":" with
      | [k, v] => some (decS k, decS v)
      | _ => none
def encDict (d : Dict) : String :=
  if d.isEmpty then "-" else ";".intercalate (d.map fun kv => encS kv.1 ++ ":" ++ encS kv.2)
def encRes : Res → String
  | .ok none => "~"
  | .ok (some v) => encS v
  | .missing => "!"
def encOpt : Option Str → String
  | none => "~"
  | some v => encS v
def encCL : Hp.CLRes → String
  | .absent => "~"
  | .bad => "bad"
  | .ok n => toString n

def dflt : Str := lit "dflt"

def runCase (ws : List String) : String :=
  let r : HReq :=
    { method := decS (kv ws "m"), rootPath := [], pathInfo := lit "/", query := [], serverName := lit "localhost",
      serverPort := lit "80", scheme := lit "http",
      client := if kv ws "cl" == "1" then some (lit "10.0.0.1", lit "5555") else none,
      fileWrapper := kv ws "fw" == "1", headers := decHdrs (kv ws "hs") }
  let env := toEnviron r
  let store := asgiStore (toScope r)
  let names := if kv ws "q" == "" then [] else (kv ws "q").splitOn "," |>.map decS
  let (gs, _) := names.foldl (fun (acc : List String × Dict) name =>
      let w := [wsgiGet env name false none, wsgiGet env name false (some dflt), wsgiGet env name true none]
      let (a1, c1) := asgiGetC acc.2 store name false none
      let (a2, c2) := asgiGetC c1 store name false (some dflt)
      let (a3, c3) := asgiGetC c2 store name true none
      (acc.1 ++ [",".intercalate (w.map encRes) ++ "/" ++ ",".intercalate ([a1, a2, a3].map encRes)], c3)) ([], [])
  "g=" ++ (if gs.isEmpty then "-" else "|".intercalate gs)
    ++ " HW=" ++ encDict (wsgiHeaders env) ++ " HL=" ++ encDict (wsgiHeadersLower env) ++ " HA=" ++ encDict (asgiHeaders store)
    ++ " CT=" ++ encOpt (wsgiContentType env) ++ "/" ++ encOpt (asgiContentType r.method store)
    ++ " CL=" ++ encCL (wsgiContentLength env) ++ "/" ++ encCL (asgiContentLength store)

/-! ### request target / connection attributes (Wq) -/
def encOut {α : Type} (f : α → String) : Wq.Out α → String
  | .ok v => f v
  | .bad400 => "400"
  | .exc => "EXC"
def encH (s : Hp.Str) : String := encS (s.map Char.toNat)
def encParams (p : Qs.Params) : String :=
  if p.isEmpty then "-" else ";".intercalate (p.map fun kv =>
    encS kv.1 ++ ":" ++ (match kv.2 with
      | .one v => "o" ++ encS v
      | .many vs => "m" ++ ",".intercalate (vs.map encS)))
def encPort : Option Int → String
  | some n => toString n
  | none => "~"
def encRoute (r : List Hp.Str) : String := if r.isEmpty then "-" else ",".intercalate (r.map encH)
def flag (s : String) (i : Nat) : Bool := s.toList.getD i '0' == '1'

def runTarget (ws : List String) : String :=
  let cl := kv ws "cl"
  let c : Wq.Conn :=
    { method := decS (kv ws "m"), target := (decS (kv ws "tg")).map Nat.toUInt8, scheme := decS (kv ws "sc"),
      server := (decS (kv ws "sn"), (kv ws "sp").toNat!),
      client := if cl == "-" || cl == "" then none else
        match cl.splitOn ":" with
        | [a, p] => some (decS a, p.toNat!)
        | _ => none,
      rootPath := decS (kv ws "rp"), headers := decHdrs (kv ws "hs"), fileWrapper := kv ws "fw" == "1" }
  let lb := kv ws "lib"
  let l : Wq.Lib :=
    { omitScriptName := flag lb 0, omitQueryString := flag lb 1, omitRootPath := flag lb 2, omitScheme := flag lb 3,
      clientNull := flag lb 4,
      server := match lb.toList.getD 5 'g' with
        | 'm' => .missing
        | 'n' => .null
        | _ => .given }
  let o : Wq.Opts := { strip := flag (kv ws "o") 0, keepBlank := flag (kv ws "o") 1, csv := flag (kv ws "o") 2 }
  let vw := Wq.wsgiView (Wq.toEnviron c l) o
  let va := Wq.asgiView (Wq.toScope c l) o
  let enc (v : Wq.View) : String :=
    match v.queryString, v.params with
    | some q, some ps => " ".intercalate
      [encOut encS v.method, encOut encS v.path, encS q, encParams ps, encS v.rootPath, encOut encS v.scheme, encOut encH v.host,
       encOut encPort v.port, encOut encS v.netloc, encOut encH v.remoteAddr, encOut encRoute v.accessRoute]
    | _, _ => "CTOR"
  "W " ++ enc vw ++ " A " ++ enc va


partial def loop (h : IO.FS.Stream) : IO Unit := do
  let line ← h.getLine
  if line.isEmpty then return ()
  match line.trimAscii.toString.splitOn " " with
  | "h" :: ws => IO.println (runCase ws)
  | "t" :: ws => IO.println (runTarget ws)
  | ["u", s] => IO.println (encS (pyUpper (decS s)) ++ "/" ++ encS (pyLower (decS s)))
  | _ => IO.println "bad-line"
  loop h
def main : IO Unit := do loop (← IO.getStdin)

import FalconModel.Ws
open Ws

def kv (ws : List String) (k : String) : String :=
  match ws.find? (·.startsWith (k ++ "=")) with
  | some s => (s.drop (k.length + 1)).toString
  | none => ""

def parseOp (s : String) : Option Op :=
  match s.toList with
  | ['A', '0'] => some (.accept false)
  | ['A', '1'] => some (.accept true)
  | ['C', 'n'] => some (.close .none)
  | ['C', 'x'] => some (.close .notInt)
  | 'C' :: r => (String.ofList r).toInt?.map fun c => .close (.int c)
  | ['S', 't'] => some (.send .text)
  | ['S', 'b'] => some (.send .bytes)
  | ['R', 't'] => some (.recv .text)
  | ['R', 'd'] => some (.recv .data)
  | ['R', 'm'] => some (.recv .media)
  | 'H' :: r => (String.ofList r).toInt?.map .raiseHttp
  | 'T' :: r => (String.ofList r).toInt?.map .raiseStatus
  | ['X'] => some .raiseExc
  | _ => none

def parseIn (s : String) : Option InEv :=
  match s.toList with
  | ['t', '1'] => some (.text true)
  | ['t', '0'] => some (.text false)
  | ['b'] => some .bytes
  | ['d', 'n'] => some (.disconnect none)
  | 'd' :: r => (String.ofList r).toInt?.map fun c => .disconnect (some c)
  | _ => none

def showEv : Ev × Bool → String
  | (e, ok) =>
    (match e with
     | .accept h => if h then "acc1" else "acc0"
     | .send .text => "snd:t"
     | .send .bytes => "snd:b"
     | .close c r => s!"cls:{c}:{if r then 1 else 0}") ++ (if ok then "" else "!")

def showExc : Exc → String
  | .notAllowed => "ONA"
  | .disconnected c => s!"WSD:{c}"
  | .payloadType => "PTE"
  | .invalidCloseCode => "VEI"
  | .valueOther => "VEO"
  | .osErr => "OSE"
  | .httpError s => s!"HE:{s}"
  | .httpStatus s => s!"HS:{s}"
  | .pyErr => "PY"

def showSt : S → String | .handshake => "handshake" | .accepted => "accepted" | .closed => "closed"

def splitNE (s : String) (sep : String) : List String := if s.isEmpty then [] else s.splitOn sep

def runCase (ws : List String) : String :=
  let w : W := {
    supHeaders := kv ws "supH" == "1", supReason := kv ws "supR" == "1",
    reasonCodes := (splitNE (kv ws "reasons") ",").filterMap (·.toInt?),
    errCloseCode := (kv ws "err").toInt!, binMediaOk := kv ws "bin" == "1",
    failAt := (kv ws "fail").toNat?, inbox := (splitNE (kv ws "inbox") ",").filterMap parseIn }
  if kv ws "first" == "0" then
    let w := rejectFirst w
    s!"sent={",".intercalate (w.sent.map showEv)} log= esc={if w.sent.all (·.2) then "-" else "OSE"} st=- code=-"
  else
  let script : Option (List (Op × Bool)) :=
    if kv ws "routed" == "1" then
      some ((splitNE (kv ws "script") ";").filterMap fun s =>
        match s.splitOn ":" with
        | [o, c] => (parseOp o).map fun op => (op, c == "1")
        | _ => none)
    else none
  let (w, log, esc) := handle w script
  let stS := if script.isSome then showSt w.st else "-"
  let cdS := if script.isSome then (match w.closeCode with | some c => toString c | none => "none") else "-"
  s!"sent={",".intercalate (w.sent.map showEv)} log={",".intercalate (log.map fun | none => "ok" | some e => showExc e)} esc={match esc with | none => "-" | some e => showExc e} st={stS} code={cdS}"

partial def loop (h : IO.FS.Stream) : IO Unit := do
  let line ← h.getLine
  if line.isEmpty then return ()
  IO.println (runCase (line.trimAscii.toString.splitOn " "))
  loop h
def main : IO Unit := do loop (← IO.getStdin)

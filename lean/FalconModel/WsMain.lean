import FalconModel.Ws
import FalconModel.WsAcceptIO
open Ws

/-! line protocol of the C17 correspondence: one session per line, `key=value` tokens separated by blanks

    case supH=0|1 supR=0|1 err=<int> bin=0|1 fail=-|<n> fault=os|os<code>|ok1000|sub|val|other icc=0|1 refuse=<int>,… q=0|1 first=0|1
         (fault = class of the exception the server's send raises, icc = its message says 'invalid close code', refuse = close codes the server's policy refuses)
         route=r|u|n inbox=<in>,… reasons=<int>,… mwreq=<step>;… mwres=<step>;… script=<step>;… custom=none|h:<step>;… fd=-|<int>

    step = <op>:<catch 0|1|2>:<disc -|int>;  op = A<headers><subprotocol><badsub> | C(n|x|<int>)[+] | St | Sb | Rt | Rd | Rm |
    H<status> | T<status> | X | B | E<class> | Ag<sub>~<hdrs> (accept with concrete arguments: WsAcceptIO.lean) | Kt | Kd | Km (a receive_*
    that parked and was cancelled);  in = t1 | t0 | b | dn | d<code>

    reply: sent=<ev>,… log=<outcome>,… hlog=<outcome>,… esc=<exc>|- pub=<unaccepted><closed><ready>|- -/

def kv (ws : List String) (k : String) : String :=
  match ws.find? (·.startsWith (k ++ "=")) with
  | some s => (s.drop (k.length + 1)).toString
  | none => ""

def b01 (c : Char) : Bool := c == '1'

/-- `E<class>`: the script itself raises an exception of one of the framework's own classes (by hand, or out of an operation on
    another connection's socket): ona | pte | vei | veo | ose | ae | wsdn | wsd<code> (the argument of `WebSocketDisconnected(...)`) -/
def parseExc (r : List Char) : Option Exc :=
  match r with
  | ['o', 'n', 'a'] => some .notAllowed
  | ['p', 't', 'e'] => some .payloadType
  | ['v', 'e', 'i'] => some .invalidCloseCode
  | ['v', 'e', 'o'] => some .valueOther
  | ['o', 's', 'e'] => some .osErr
  | ['a', 'e'] => some .assertion
  | ['p', 'y'] => some .pyErr
  | ['w', 's', 'd', 'n'] => some (Ws.wsd none)
  | 'w' :: 's' :: 'd' :: r => (String.ofList r).toInt?.map fun c => Ws.wsd (some c)
  | _ => none

def parseOp (s : String) : Option Op :=
  match s.toList with
  | ['A', h, p, b] => some (.accept (b01 h) (b01 p) (b01 b) none)
  | 'A' :: 'g' :: r => (Wa.parseAcceptTok ('g' :: r)).map fun (sub, a) => Wa.toOp sub a
  | ['C', 'n'] => some (.close .none false)
  | ['C', 'n', '+'] => some (.close .none true)
  | ['C', 'x'] => some (.close .notInt false)
  | ['C', 'x', '+'] => some (.close .notInt true)
  | 'C' :: r =>
    let (r, plus) := if r.getLast? == some '+' then (r.dropLast, true) else (r, false)
    (String.ofList r).toInt?.map fun c => .close (.int c) plus
  | ['S', 't'] => some (.send .text)
  | ['S', 'b'] => some (.send .bytes)
  | ['R', 't'] => some (.recv .text)
  | ['R', 'd'] => some (.recv .data)
  | ['R', 'm'] => some (.recv .media)
  | ['K', 't'] => some (.recvAbandoned .text)
  | ['K', 'd'] => some (.recvAbandoned .data)
  | ['K', 'm'] => some (.recvAbandoned .media)
  | 'H' :: r => (String.ofList r).toInt?.map .raiseHttp
  | 'T' :: r => (String.ofList r).toInt?.map .raiseStatus
  | ['X'] => some .raiseExc
  | ['B'] => some .raiseBoom
  | 'E' :: r => (parseExc r).map .raiseOf
  | _ => none

def parseIn (s : String) : Option InEv :=
  match s.toList with
  | ['t', '1'] => some (.text true)
  | ['t', '0'] => some (.text false)
  | ['b'] => some .bytes
  | ['d', 'n'] => some (.disconnect none)
  | 'd' :: r => (String.ofList r).toInt?.map fun c => .disconnect (some c)
  | _ => none

def showEv : Ev × Bool → String
  | (e, ok) =>
    (match e with
     | .accept h s => s!"acc{if h then 1 else 0}{if s then 1 else 0}"
     | .send .text => "snd:t"
     | .send .bytes => "snd:b"
     | .close c r => s!"cls:{c}:{if r then 1 else 0}") ++ (if ok then "" else "!")

def showExc : Exc → String
  | .notAllowed => "ONA"
  | .disconnected c => s!"WSD:{c}"
  | .payloadType => "PTE"
  | .invalidCloseCode => "VEI"
  | .valueOther => "VEO"
  | .osErr => "OSE"
  | .httpError s => s!"HE:{s}"
  | .httpStatus s => s!"HS:{s}"
  | .pyErr => "PY"
  | .assertion => "AE"
  | .boom => "BOOM"

def splitNE (s : String) (sep : String) : List String := if s.isEmpty then [] else s.splitOn sep

def parseDisc (s : String) : Option Int := if s == "-" then none else s.toInt?

/-- a step that does not parse becomes a marker raise, so a protocol error can never look like agreement -/
def parseSteps (s : String) : List Step :=
  (splitNE s ";").map fun t =>
    match t.splitOn ":" with
    | [o, c, d] =>
      match parseOp o with
      | some op => (op, (if c == "1" then Catch.documented else if c == "2" then Catch.all else Catch.none), parseDisc d)
      | none => (.raiseStatus (-1), .none, none)
    | _ => (.raiseStatus (-2), .none, none)

def parseFault (s : String) : Fault :=
  if s == "ok1000" then .ok1000 else if s == "sub" then .subproto else if s == "other" then .other else if s == "val" then .value
  else if s == "os" then .os none else .os ((s.drop 2).toString.toInt?)

def showLog (l : List (Option Exc)) : String := ",".intercalate (l.map fun | none => "ok" | some e => showExc e)

def runCase (ws : List String) : String :=
  let w : W := {
    supHeaders := kv ws "supH" == "1", supReason := kv ws "supR" == "1",
    reasonCodes := (splitNE (kv ws "reasons") ",").filterMap (·.toInt?),
    errCloseCode := (kv ws "err").toInt!, binMediaOk := kv ws "bin" == "1",
    failAt := (kv ws "fail").toNat?, fault := parseFault (kv ws "fault"), faultIcc := kv ws "icc" == "1",
    refused := (splitNE (kv ws "refuse") ",").filterMap (·.toInt?), buffered := kv ws "q" == "1",
    inbox := (splitNE (kv ws "inbox") ",").filterMap parseIn }
  if kv ws "first" == "0" then
    let w := rejectFirst w
    s!"sent={",".intercalate (w.sent.map showEv)} log= hlog= esc={if w.sent.all (·.2) then "-" else showExc (w.fault.raw w.faultIcc)} pub=-"
  else
  let cu := kv ws "custom"
  let c : Cfg := { custom := if cu.startsWith "h:" then some (parseSteps (cu.drop 2).toString) else none, fd := parseDisc (kv ws "fd") }
  let route : Route := match kv ws "route" with
    | "u" => .unrouted
    | "n" => .noResponder
    | _ => .responder (parseSteps (kv ws "script"))
  let r := handleMw c w (parseSteps (kv ws "mwreq")) (parseSteps (kv ws "mwres")) route
  let bit (b : Bool) := if b then "1" else "0"
  let pub := bit (r.w.st == .handshake) ++ bit (r.w.isClosed c.fd) ++ bit (r.w.st == .accepted && c.fd.isNone)
  s!"sent={",".intercalate (r.w.sent.map showEv)} log={showLog r.log} hlog={showLog r.hlog} esc={match r.esc with | none => "-" | some e => showExc e} pub={pub}"

partial def loop (h : IO.FS.Stream) : IO Unit := do
  let line ← h.getLine
  if line.isEmpty then return ()
  IO.println (runCase (line.trimAscii.toString.splitOn " "))
  loop h
def main : IO Unit := do loop (← IO.getStdin)

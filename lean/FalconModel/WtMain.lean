import FalconModel.WsArgs
open Wt

/-! line protocol of the C17 argument-type x state correspondence (model `Wt`, WsArgs.lean): one scripted responder per line

    wt st=h|a|c cc=-|<int> showleft=0|1 inbox=-|<ev>,<ev>… ops=<op>/<disc>,<op>/<disc>…

    `st` / `cc` = the state the script starts in (handshake; accepted; closed by the application with that code),
    ev  = f<t><b> with t, b in m (key missing) n (None) v (a value)  |  d- (disconnect without code)  |  d<code>
    op  = T<arg> send_text | D<arg> send_data | M<pt><ok> send_media (pt = t b o, ok = 1: the serializer returns) | rt | rd | rm
    arg = str strsub bytes bytessub bytearray memoryview none int other;  disc = - | <int>: the pump's flag the call observes
    reply: one word per op  <outcome>:<unaccepted><closed><ready>  (the public properties after the call, under the same flag), then
           ` | sent=<t|b…|-> left=<events not taken from the server>`  (`left=-` with showleft=0: a pump takes them ahead of the calls)
    outcome = sent:text | sent:bytes | got:text | got:bytes | ONA | WSD:<code> | TE | PTE | SER | SRV -/

def kv (ws : List String) (k : String) : String :=
  match ws.find? (·.startsWith (k ++ "=")) with
  | some s => (s.drop (k.length + 1)).toString
  | none => ""

def parseInt? (s : String) : Option Int := if s == "-" || s == "" then none else s.toInt?

def parseFld : Char → Fld
  | 'v' => .val
  | 'n' => .none
  | _ => .missing

def parseEv (s : String) : Option InEv :=
  match s.toList with
  | ['f', t, b] => some (.frame (parseFld t) (parseFld b))
  | 'd' :: rest => some (.disconnect (parseInt? (String.ofList rest)))
  | _ => none

def parseArg : String → Option Arg
  | "str" => some .str | "strsub" => some .strSub | "bytes" => some .bytes | "bytessub" => some .bytesSub
  | "bytearray" => some .bytearray | "memoryview" => some .memoryview | "none" => some .none | "int" => some .int | "other" => some .other
  | _ => none

def parseOp (s : String) : Option Op :=
  match s.toList with
  | ['r', 't'] => some .recvText
  | ['r', 'd'] => some .recvData
  | ['r', 'm'] => some .recvMedia
  | 'T' :: rest => (parseArg (String.ofList rest)).map .sendText
  | 'D' :: rest => (parseArg (String.ofList rest)).map .sendData
  | ['M', p, k] => some (.sendMedia (match p with | 't' => .text | 'b' => .binary | _ => .other) (k == '1'))
  | _ => none

def parseStep (s : String) : Option (Op × Option Int) :=
  match s.splitOn "/" with
  | [o, d] => (parseOp o).map (·, parseInt? d)
  | _ => none

def showKey : Key → String
  | .text => "text"
  | .bytes => "bytes"

def showOut : Out → String
  | .sent k => "sent:" ++ showKey k
  | .got k => "got:" ++ showKey k
  | .err .notAllowed => "ONA"
  | .err (.disconnected c) => s!"WSD:{c}"
  | .err .typeErr => "TE"
  | .err .payloadType => "PTE"
  | .err .serErr => "SER"
  | .err .srvErr => "SRV"

def bit (b : Bool) : String := if b then "1" else "0"

/-- run the script, rendering each outcome with the public properties after the call -/
def runShow (w : W) : List (Op × Option Int) → W × List String
  | [] => (w, [])
  | (o, d) :: rest =>
    let (w1, out) := w.op d o
    let (w2, outs) := runShow w1 rest
    (w2, (showOut out ++ ":" ++ bit w1.unaccepted ++ bit (w1.isClosed d) ++ bit (w1.ready d)) :: outs)

def handleLine (line : String) : String :=
  let ws := (line.splitOn " ").filter (· ≠ "")
  match ws with
  | "wt" :: rest =>
    let st : Option St := match kv rest "st" with | "h" => some .handshake | "a" => some .accepted | "c" => some .closed | _ => none
    let inboxS := kv rest "inbox"
    let inbox := if inboxS == "-" then some [] else (inboxS.splitOn ",").mapM parseEv
    let ops := ((kv rest "ops").splitOn ",").mapM parseStep
    match st, inbox, ops with
    | some st, some inbox, some ops =>
      let w : W := { st := st, closeCode := parseInt? (kv rest "cc"), inbox := inbox }
      let (w1, outs) := runShow w ops
      let sent := if w1.sent.isEmpty then "-" else String.join (w1.sent.map fun k => match k with | .text => "t" | .bytes => "b")
      let left := if kv rest "showleft" == "0" then "-" else toString w1.inbox.length
      " ".intercalate outs ++ s!" | sent={sent} left={left}"
    | _, _, _ => "parse error"
  | _ => "unknown command"

partial def loop (h : IO.FS.Stream) (out : IO.FS.Stream) : IO Unit := do
  let line ← h.getLine
  if line.isEmpty then return
  let l := line.trimAsciiEnd.toString
  if l ≠ "" then
    out.putStrLn (handleLine l)
  loop h out

def main : IO Unit := do
  let stdin ← IO.getStdin
  let stdout ← IO.getStdout
  loop stdin stdout
  stdout.flush

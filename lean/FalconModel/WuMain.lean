import FalconModel.WsUnbuf
import FalconModel.WsMode
open Wu
/-! line protocol: `run <client event> … | <label> …`, optionally prefixed by `cfg <major.minor> <max_receive_queue> ` (a WebSocket
    constructed with that announced spec version and queue setting: `Wm.wire` must yield the direct path, else the reply is
    `buffered`; the reply then starts with `hdr=<supports_accept_headers>`), or by `hist <op>,<op>,… <major.minor> ` (a WebSocket made by a `falcon.asgi.App`
    object after the given history of option changes `q<n>` and earlier connections `c<major.minor>`, `-` = none; `Wm.serve` wires it). -/
def parseVer (t : String) : Option Wm.Ver :=
  match t.splitOn "." with
  | [a, b] => match a.toNat?, b.toNat? with
    | some a, some b => some ⟨a, b⟩
    | _, _ => none
  | _ => none
def optNat (t : String) : Option Nat := if t == "-" then none else some t.toNat!
def parseCEv (t : String) : Option CEv :=
  if t.startsWith "t" then some (.text (t.drop 1).toNat!)
  else if t.startsWith "b" then some (.bytes (t.drop 1).toNat!)
  else if t.startsWith "d" then some (.disc (optNat (t.drop 1).toString))
  else none
def parseLabel (t : String) : Option Label :=
  match t.splitOn ":" with
  | ["A"] => some .accept
  | ["Rt"] => some (.recv .text)
  | ["Rd"] => some (.recv .data)
  | ["D"] => some .deliver
  | ["C"] => some .cancel
  | ["S"] => some (.send none)
  | ["S", "ok1000"] => some (.send (some .ok1000))
  | ["S", "subproto"] => some (.send (some .subproto))
  | ["S", "other"] => some (.send (some .other))
  | ["S", "os", c] => some (.send (some (.oserr (optNat c))))
  | ["X", c] => some (.close (optNat c))
  | _ => none
def showOpt : Option Nat → String
  | none => "-"
  | some n => toString n
def showObs : Obs → String
  | .parked => "parked"
  | .ret n => s!"ret:{n}"
  | .payloadErr n => s!"perr:{n}"
  | .wsdEvent c => s!"wsdE:{c}"
  | .wsdState c => s!"wsdS:{c}"
  | .notAllowed => "na"
  | .cancelled => "cancelled"
  | .sendOk => "sendOk"
  | .sendWsd c => s!"sendWsd:{c}"
  | .sendValueErr => "sendVE"
  | .sendRaised => "sendRaised"
  | .acceptOk => "acceptOk"
  | .closeSent c => s!"closeSent:{c}"
  | .closeNoop => "closeNoop"
  | .closeValueErr => "closeVE"
def showSent : Sent → String
  | .accept => "a"
  | .text => "t"
  | .close c => s!"c{c}"
def flags (s : S) : String :=
  (if s.closedProp then "c" else "-") ++ (if s.readyProp then "r" else "-") ++ (if s.unacceptedProp then "u" else "-")
def simulate : S → List Label → Nat → List String → (List String × S)
  | s, [], _, acc => (acc.reverse, s)
  | s, l :: ls, i, acc =>
    match step s l with
    | none => ((s!"DISABLED@{i}" :: acc).reverse, s)
    | some s' => simulate s' ls (i + 1) ((showObs (s'.out.getLast?.getD .parked) ++ "/" ++ flags s') :: acc)
def stepRun (line : String) : String :=
  match line.splitOn " | " with
  | [evs, labs] =>
    match evs.splitOn " " with
    | "run" :: etoks =>
      match (etoks.filter (· != "")).mapM parseCEv, ((labs.splitOn " ").filter (· != "")).mapM parseLabel with
      | some es, some ls =>
        let (obs, s) := simulate (init es) ls 0 []
        " ".intercalate obs ++ s!" | pending={s.pending.length} taken={" ".intercalate (s.taken.map (fun e => toString e.id))} observed={" ".intercalate ((observed s).map toString)} pulls={s.pulls} sent={",".intercalate (s.sent.map showSent)}"
      | _, _ => "bad-op"
    | _ => "bad-op"
  | _ => "bad-op"
/-- what the App object did before this connection: `q<n>` = `ws_options.max_receive_queue = n`, `c<major.minor>` = an earlier connection; `-` = nothing -/
def parseOp (t : String) : Option Wm.AppOp :=
  if t.startsWith "q" then (t.drop 1).toString.toNat?.map .setQueue
  else if t.startsWith "c" then (parseVer (t.drop 1).toString).map .connect
  else none
def parseHist (t : String) : Option (List Wm.AppOp) :=
  if t == "-" then some [] else (t.splitOn ",").mapM parseOp
def wired (w : Wm.Wiring) (rest : List String) : String :=
  s!"hdr={if w.acceptHeaders then 1 else 0} " ++
    (match w.path with
     | .direct => stepRun (" ".intercalate rest)
     | .buffered _ => "buffered")
def stepLine (line : String) : String :=
  let line := line.trimAscii.toString
  match line.splitOn " " with
  | "cfg" :: ver :: mq :: rest =>
    match parseVer ver, mq.toNat? with
    | some v, some q => wired (Wm.wire v q) rest
    | _, _ => "bad-op"
  | "hist" :: h :: ver :: rest =>
    match parseHist h, parseVer ver with
    | some ops, some v =>
      match (Wm.serve {} (ops ++ [.connect v])).getLast? with
      | some w => wired w rest
      | none => "bad-op"
    | _, _ => "bad-op"
  | _ => stepRun line
partial def loop (h : IO.FS.Stream) : IO Unit := do
  let line ← h.getLine
  if line.isEmpty then return ()
  IO.println (stepLine line)
  loop h
def main : IO Unit := do loop (← IO.getStdin)

#!/bin/sh
# Run lake in lean/FalconModel under the same lock the runner uses (concurrent lake builds corrupt .lake).
D="$(cd "$(dirname "$0")/.." && pwd)/lean/FalconModel"
mkdir -p "$D/.lake"
cd "$D" && exec flock "$D/.lake/verif.lock" lake "$@"

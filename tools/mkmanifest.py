#!/venv/bin/python
"""Regenerate MANIFEST.json from the property modules under harness/props (metadata only)."""
import importlib, json, os, sys
V = os.path.dirname(os.path.dirname(os.path.abspath(__file__)))
sys.path.insert(0, os.path.join(V, 'harness'))
props = [json.loads(l) for l in open(os.path.join(V, 'properties.jsonl'))]
checks, na = [], []
for p in props:
    pid = p['id']
    path = os.path.join(V, 'harness', 'props', pid.lower() + '.py')
    if not os.path.exists(path):
        na.append({'property_id': pid, 'reason': 'check not built yet in this revision (planned: DESIGN.md section 8); not claimed until its model, correspondence and oracle run clean'})
        continue
    try:
        m = importlib.import_module('props.' + pid.lower())
        m.LEVEL_TEXT, m.LEVEL_NOTE, m.TECHNIQUE, m.THEOREMS, m.run
    except Exception as e:
        print('skipping', pid, repr(e)[:100])
        na.append({'property_id': pid, 'reason': 'check under construction in this revision; not claimed until its model, correspondence and oracle run clean'})
        continue
    if os.environ.get('ONLY') and pid not in os.environ['ONLY'].split(','):
        na.append({'property_id': pid, 'reason': 'check under construction in this revision; not claimed until its model, correspondence and oracle run clean'})
        continue
    checks.append({
        'property_id': pid,
        'quick_cmd': f'./check {pid} --tier quick',
        'thorough_cmd': f'./check {pid} --tier thorough',
        'evidence_file': f'evidence/{pid}.json',
        'replay_cmd_template': f'./check {pid} --replay {{path}}',
        'engine': 'lean4-model+correspondence',
        'level_claimed': {'category': 'proof', 'text': m.LEVEL_TEXT, 'design_ref': f'DESIGN.md section 8, {pid}'},
        'level_note': m.LEVEL_NOTE,
        'technique': m.TECHNIQUE,
    })
man = {
    'version': 1,
    'setup_cmd': 'cd lean/FalconModel && lake build FalconModel $(sed -n \'s/^name = "\\(.*driver\\)"$/\\1/p\' lakefile.toml)',
    'hooks': {'guard': 'FALCON_VERIF', 'enable': 'no hooks: all instrumentation is external (wrapper objects, scripted event loops, sys.settrace); checks import /repo/falcon/**/*.py through harness/srcload.py',
              'baseline_off_cmd': 'cd /repo && /venv/bin/python -m pytest -ra -q -p no:cacheprovider --timeout=900 --continue-on-collection-errors',
              'source_commits': [], 'add_only': True},
    'engines': [{'name': 'lean4-model+correspondence', 'path': 'lean/FalconModel + harness/',
                 'serves_properties': [c['property_id'] for c in checks],
                 'kind_free_text': 'Lean 4 models + kernel-checked theorems (lake build, #print axioms audit); Python harness runs the real falcon sources and the compiled Lean drivers on the same inputs (line protocol) and evaluates independent property oracles'}],
    'checks': checks,
    'not_applicable': na,
    'notes': 'See DESIGN.md. A broken proof obligation or correspondence triggers a failing-input search; exit 1 with VIOLATION (suffix no-failing-input-found when none is found). known_findings.json lists recorded findings and fixed: entries.',
}
json.dump(man, open(os.path.join(V, 'MANIFEST.json'), 'w'), indent=1)
print('checks', [c['property_id'] for c in checks], 'not_applicable', [n['property_id'] for n in na])

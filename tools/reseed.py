#!/venv/bin/python
"""Re-run a recorded seeded change (seeded/<id>) against the current checks after a strengthening, keeping the suite result of the first
confirmation and recording the history.  usage: tools/reseed.py <seed_id> "<note: what was strengthened>" """
import json
import os
import subprocess
import sys

V = os.path.dirname(os.path.dirname(os.path.abspath(__file__)))
sid, note = sys.argv[1], sys.argv[2]
d = os.path.join(V, 'seeded', sid)
old = json.load(open(os.path.join(d, 'meta.json')))
prop = old['property']
subprocess.run(['/venv/bin/python', os.path.join(V, 'tools', 'seedtest.py'), d, prop, sid, '--no-suite'], check=False)
new = json.load(open(os.path.join(d, 'meta.json')))
for k in ('suite_passed', 'suite_failed'):
    new[k] = old.get(k)
first = {t: (old.get(f'check_{t}') or {}).get('exit') for t in ('quick', 'thorough')}
hist = old.get('history') or (f'first run: quick exit {first["quick"]}, thorough exit {first["thorough"]} ' + ('(caught in the thorough tier only)' if first['thorough'] == 1 else '(missed)'))
new['history'] = hist + ' | ' + note
new['ran'] = [x for x in old.get('ran', []) if 'pytest' in x] + new['ran']
json.dump(new, open(os.path.join(d, 'meta.json'), 'w'), indent=1)
print(sid, 'detected' if new.get('detected') else 'STILL MISSED', new['history'][:200])

#!/venv/bin/python
"""Confirm a seeded change and run the property's check against it.

usage: tools/seedtest.py <src_dir> <PROP> <seed_id> [--no-suite] [--thorough]

<src_dir> holds patch.diff, demo.py (+ README.md) as produced by an independent sub-agent.
Steps (all in a scratch worktree of /repo, removed afterwards; /repo itself is not touched):
  1. demo.py exits 0 on the clean tree;  2. patch applies; demo.py exits non-zero;
  3. the pinned test suite still passes with the patch (3440 passed, only the baseline collection error);
  4. FALCON_REPO=<worktree> ./check PROP --tier quick (then thorough if quick misses) -> VIOLATION expected.
Writes /verif/seeded/<seed_id>/{patch.diff,demo.py,README.md,meta.json}.
"""
import json
import os
import re
import shutil
import subprocess
import sys
import time

V = os.path.dirname(os.path.dirname(os.path.abspath(__file__)))


def sh(cmd, cwd=None, env=None, timeout=3600):
    p = subprocess.run(cmd, shell=True, cwd=cwd, env=env, capture_output=True, text=True, timeout=timeout)
    return p.returncode, (p.stdout + p.stderr)


def main():
    src, prop, sid = sys.argv[1:4]
    no_suite = '--no-suite' in sys.argv
    wt = f'/tmp/seed_wt_{sid}'
    sh(f'git -C /repo worktree remove --force {wt}')
    rc, out = sh(f'git -C /repo worktree add {wt} HEAD')
    assert rc == 0, out
    meta = {'seed_id': sid, 'property': prop, 'source': 'independent sub-agent given only the property text and a scratch worktree',
            'repo_head': sh('git -C /repo log --format=%h -1')[1].strip(), 'ran': []}
    try:
        rc0, o0 = sh(f'/venv/bin/python {src}/demo.py', cwd=wt, timeout=600)
        meta['demo_clean_exit'] = rc0
        meta['ran'].append(f'cd <clean worktree> && /venv/bin/python demo.py -> exit {rc0}')
        rc, out = sh(f'git apply {os.path.abspath(src)}/patch.diff', cwd=wt)
        meta['patch_applies'] = rc == 0
        if rc != 0:
            meta['error'] = out[-500:]
            return meta
        meta['files_changed'] = sh('git diff --stat', cwd=wt)[1].strip().splitlines()
        rc1, o1 = sh(f'/venv/bin/python {src}/demo.py', cwd=wt, timeout=600)
        meta['demo_patched_exit'] = rc1
        meta['demo_patched_output'] = o1[-600:]
        meta['ran'].append(f'git apply patch.diff && /venv/bin/python demo.py -> exit {rc1}')
        if not no_suite:
            rc, out = sh('/venv/bin/python -m pytest -q -p no:cacheprovider -n 8 tests', cwd=wt, timeout=3600)
            m = re.search(r'(\d+) passed', out); f = re.search(r'(\d+) failed', out)
            meta['suite_passed'] = int(m.group(1)) if m else None
            meta['suite_failed'] = int(f.group(1)) if f else 0
            meta['ran'].append(f'/venv/bin/python -m pytest -q -n 8 tests (patched) -> {meta["suite_passed"]} passed, {meta["suite_failed"]} failed')
        env = dict(os.environ, FALCON_REPO=wt)
        for tier in (['quick', 'thorough'] if '--quick-only' not in sys.argv else ['quick']):
            t0 = time.time()
            rc, out = sh(f'./check {prop} --tier {tier}', cwd=V, env=env, timeout=7200)
            line = next((l for l in out.splitlines() if l.startswith('VIOLATION')), None)
            meta[f'check_{tier}'] = {'exit': rc, 'violation_line': line, 'wall_s': round(time.time() - t0, 1), 'summary': [l for l in out.splitlines() if l.startswith(prop)][:1]}
            meta['ran'].append(f'FALCON_REPO=<patched worktree> ./check {prop} --tier {tier} -> exit {rc}: {line}')
            if line:
                rp = line.split('replay=')[1].split()[0]
                try:
                    r = json.load(open(rp))
                    meta[f'check_{tier}']['failing_input'] = r.get('failing_input') or r.get('no_longer_checks')
                except Exception as e:  # noqa
                    meta[f'check_{tier}']['failing_input'] = repr(e)
            if rc == 1:
                break
        meta['detected'] = any(meta.get(f'check_{t}', {}).get('exit') == 1 for t in ('quick', 'thorough'))
        meta['detected_with_input'] = any((meta.get(f'check_{t}', {}).get('violation_line') or '').endswith('no-failing-input-found') is False and meta.get(f'check_{t}', {}).get('exit') == 1 for t in ('quick', 'thorough'))
        return meta
    finally:
        sh(f'git -C /repo worktree remove --force {wt}')
        dst = os.path.join(V, 'seeded', sid)
        os.makedirs(dst, exist_ok=True)
        for fn in ('patch.diff', 'demo.py', 'README.md'):
            if os.path.exists(os.path.join(src, fn)) and os.path.abspath(src) != os.path.abspath(dst):
                shutil.copy(os.path.join(src, fn), os.path.join(dst, fn))
        json.dump(meta, open(os.path.join(dst, 'meta.json'), 'w'), indent=1)
        print(json.dumps({k: meta.get(k) for k in ('seed_id', 'demo_clean_exit', 'demo_patched_exit', 'suite_passed', 'suite_failed', 'detected', 'detected_with_input')}))
        for t in ('quick', 'thorough'):
            if f'check_{t}' in meta:
                print(' ', t, meta[f'check_{t}']['exit'], meta[f'check_{t}']['violation_line'], meta[f'check_{t}']['wall_s'])


if __name__ == '__main__':
    main()
